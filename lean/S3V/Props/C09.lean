/-
C09 — progress callbacks account for exactly the transferred bytes.
Quantifiers: every window size, every operation sequence on a request body (reads of any
amount, seeks with any offset/whence, enable/disable at any point, any number of rewinds),
every aggregation threshold, every sequence of raw progress values.
-/
import S3V.Lemmas.Chunk
import S3V.Props.C02
import S3V.Props.C14Base

namespace S3V.C09
open S3V.Chunk
variable {α : Type}

/-- **Progress identity.** For every operation sequence on a body: the values reported, plus the
net movement made while reporting was suppressed (signing reads), equal the movement of the
bounded position `min(pos, size)`. -/
theorem rfc_progress (c : Rfc α) (ops : List Op) :
    (runOps c ops).2.sum + disabledDelta c ops =
      ((runOps c ops).1.bounded : Int) - (c.bounded : Int) := by
  induction ops generalizing c with
  | nil => simp [runOps, disabledDelta]
  | cons o os ih =>
    have hs := step_progress c o
    have := ih (step c o).1
    simp only [runOps, disabledDelta, List.sum_append, sum_opt]
    by_cases he : c.enabled = true
    · simp only [he, if_true] at hs ⊢; omega
    · simp only [he] at hs ⊢
      simp only [Bool.false_eq_true, if_false] at hs ⊢
      omega

/-- A stretch of operations executed while reporting is suppressed reports nothing, and its
net movement is just the change of the bounded position — so a stretch that returns to where it
began (botocore: disable, read for signing/checksums, seek(0), enable) contributes nothing. -/
theorem disabled_stretch (c : Rfc α) (ops : List Op) (hd : c.enabled = false)
    (hno : Op.enable ∉ ops) :
    (runOps c ops).2 = [] ∧ (runOps c ops).1.enabled = false ∧
    disabledDelta c ops = ((runOps c ops).1.bounded : Int) - (c.bounded : Int) := by
  induction ops generalizing c with
  | nil => simp [runOps, disabledDelta, hd]
  | cons o os ih =>
    have hne : o ≠ .enable := fun e => hno (by simp [e])
    have hen : (step c o).1.enabled = false := by
      cases o with
      | read a => simp [step, hd]
      | seek w wh => simp only [step]; split <;> simp [hd]
      | enable => exact absurd rfl hne
      | disable => simp [step]
      | close => simp [step, hd]
    have hp : (step c o).2.progress = none := by
      cases o with
      | read a => simp [step, hd]
      | seek w wh => simp only [step]; split <;> simp [hd]
      | enable => exact absurd rfl hne
      | disable => simp [step]
      | close => simp [step]
    obtain ⟨i1, i2, i3⟩ := ih (step c o).1 hen (fun h => hno (by simp [h]))
    refine ⟨by simp [runOps, hp, i1, optList], by simpa [runOps] using i2, ?_⟩
    simp only [disabledDelta, hd, runOps]
    simp only [Bool.false_eq_true, if_false]
    rw [i3]; omega

/-- Hence: whenever the suppressed stretches so far net to zero, the sum of everything reported
is exactly the bounded position — in particular it lies in `[0, size]`, and after the body has
been read to its end it equals `size`. -/
theorem running_sum_in_bounds (c : Rfc α) (ops : List Op) (h0 : c.pos = 0)
    (hbal : disabledDelta c ops = 0) :
    (runOps c ops).2.sum = (runOps c ops).1.bounded ∧
    0 ≤ (runOps c ops).2.sum ∧ (runOps c ops).2.sum ≤ c.size := by
  have h := rfc_progress c ops
  have hb : c.bounded = 0 := by simp [Rfc.bounded, h0]
  have hsz : (runOps c ops).1.size = c.size := by
    induction ops generalizing c with
    | nil => rfl
    | cons o os ih =>
      simp only [runOps]
      rw [← step_size c o]
      -- size is preserved along the whole run
      have : ∀ (c' : Rfc α) (os : List Op), (runOps c' os).1.size = c'.size := by
        intro c' os
        induction os generalizing c' with
        | nil => rfl
        | cons o' os' ih' => simp only [runOps]; rw [ih' (step c' o').1, step_size]
      exact this _ os
  have hle : (runOps c ops).1.bounded ≤ (runOps c ops).1.size := by
    unfold Rfc.bounded; omega
  rw [hbal, hb] at h
  refine ⟨by omega, by omega, by omega⟩

/-- **A rewind takes back what was reported**: with reporting enabled, `seek(0)` reports
minus the bounded position (nothing when already at 0). -/
theorem seek0_takes_back (c : Rfc α) (he : c.enabled = true) :
    optVal (step c (.seek 0 0)).2.progress = - (c.bounded : Int) ∧ (step c (.seek 0 0)).1.pos = 0 := by
  have := step_progress c (.seek 0 0)
  simp only [he, if_true] at this
  have hp : (step c (.seek 0 0)).1.pos = 0 := by simp [step, Rfc.seekTarget]
  refine ⟨?_, hp⟩
  rw [this]
  simp [Rfc.bounded, hp]

/-- After any history, a rewind followed by one `read()` re-delivers the whole window — so any
number of client-level retries re-sends the same bytes (C01 uses this too). -/
theorem reread_after_rewind (c : Rfc α) :
    (step (step c (.seek 0 0)).1 (.read none)).2.data = c.window := by
  simp [step, Rfc.seekTarget, Rfc.readLen, Rfc.size]

/-! ### aggregation -/

/-- Conservation: what the subscribers received plus what is still pending is what went in. -/
theorem agg_conservation (a : Agg) (vs : List Int) :
    (a.feed vs).2.sum + (a.feed vs).1.seen = a.seen + vs.sum := by
  induction vs generalizing a with
  | nil => simp [Agg.feed]
  | cons v vs ih =>
    simp only [Agg.feed, List.sum_append, List.sum_cons, sum_opt]
    have := ih (a.call v).1
    unfold Agg.call at this ⊢
    by_cases h : a.seen + v ≥ (a.threshold : Int)
    · simp only [h, if_true] at this ⊢; simp only [optVal]; omega
    · simp only [h, if_false] at this ⊢; simp only [optVal]; omega

/-- Every value delivered by a positive-threshold aggregator is positive (deliveries only move
the reported total forward), and so is a flush. -/
theorem agg_delivers_positive (a : Agg) (ht : 0 < a.threshold) (vs : List Int) :
    ∀ d ∈ (a.feed vs).2, 0 < d := by
  induction vs generalizing a with
  | nil => simp [Agg.feed]
  | cons v vs ih =>
    intro d hd
    simp only [Agg.feed, List.mem_append] at hd
    have hth : (a.call v).1.threshold = a.threshold := by
      unfold Agg.call; split <;> rfl
    rcases hd with h | h
    · rw [mem_optList] at h
      unfold Agg.call at h
      by_cases hc : a.seen + v ≥ (a.threshold : Int)
      · simp only [hc, if_true, Option.some.injEq] at h; omega
      · simp [hc] at h
    · exact ih (a.call v).1 (by rw [hth]; exact ht) d h

/-- After feeding any values, the pending amount is below the threshold. -/
theorem agg_pending_lt (a : Agg) (ht : 0 < a.threshold) (h0 : a.seen < a.threshold) (vs : List Int) :
    (a.feed vs).1.seen < a.threshold ∧ (a.feed vs).1.threshold = a.threshold := by
  induction vs generalizing a with
  | nil => exact ⟨h0, rfl⟩
  | cons v vs ih =>
    simp only [Agg.feed]
    have hth : (a.call v).1.threshold = a.threshold := by
      unfold Agg.call; split <;> rfl
    have hs : (a.call v).1.seen < (a.call v).1.threshold := by
      unfold Agg.call
      by_cases hc : a.seen + v ≥ (a.threshold : Int)
      · simp only [hc, if_true]; omega
      · simp only [hc, if_false]; omega
    have := ih (a.call v).1 (by rw [hth]; exact ht) hs
    rw [hth] at this
    exact this

/-- **Totals through the aggregator.** Starting empty, for raw values whose pending remainder is
non-negative at close (true for every successful body: deliveries happen only when the pending
amount reaches the threshold, so the delivered total always equals an earlier running total,
which lies in `[0,size]`), the subscribers' total after `flush()` is exactly the raw total. -/
theorem agg_total_after_flush (thr : Nat) (vs : List Int)
    (hpend : 0 ≤ (({ threshold := thr } : Agg).feed vs).1.seen) :
    (({ threshold := thr } : Agg).feed vs).2.sum
        + optVal ((({ threshold := thr } : Agg).feed vs).1.flush).2 = vs.sum ∧
    ((({ threshold := thr } : Agg).feed vs).1.flush).1.seen = 0 := by
  have hc := agg_conservation ({ threshold := thr } : Agg) vs
  simp only at hc
  unfold Agg.flush
  by_cases hp : (({ threshold := thr } : Agg).feed vs).1.seen > 0
  · simp only [hp, if_true, optVal]
    exact ⟨by omega, trivial⟩
  · simp only [hp, if_false, optVal]
    have : (({ threshold := thr } : Agg).feed vs).1.seen = 0 := by omega
    exact ⟨by omega, this⟩

/-- Deliveries happen exactly when the running raw total, minus what was delivered before,
reaches the threshold; the delivered total then *equals* the running raw total. So the
subscribers' running total is always one of the raw running totals (or 0): it stays in any
interval `[0, size]` that contains them. -/
theorem agg_delivered_is_running_total (a : Agg) (vs : List Int) (d : Int) (pre post : List Int)
    (h : (a.feed vs).2 = pre ++ d :: post) :
    ∃ k, k ≤ vs.length ∧ pre.sum + d = a.seen + (vs.take k).sum := by
  induction vs generalizing a pre with
  | nil => simp [Agg.feed] at h
  | cons v vs ih =>
    simp only [Agg.feed] at h
    unfold Agg.call at h ih
    by_cases hc : a.seen + v ≥ (a.threshold : Int)
    · simp only [hc, if_true, optList, List.singleton_append] at h
      cases pre with
      | nil =>
        simp only [List.nil_append, List.cons.injEq] at h
        exact ⟨1, by simp, by simp [h.1]⟩
      | cons p pre' =>
        simp only [List.cons_append, List.cons.injEq] at h
        obtain ⟨k, hk, hs⟩ := ih { a with seen := 0 } pre' (by simpa [Agg.call] using h.2)
        refine ⟨k + 1, by simp; omega, ?_⟩
        simp only [List.take_succ_cons, List.sum_cons] at hs ⊢
        rw [← h.1]; omega
    · simp only [hc, if_false, optList, List.nil_append] at h
      obtain ⟨k, hk, hs⟩ := ih { a with seen := a.seen + v } pre (by simpa [Agg.call] using h)
      refine ⟨k + 1, by simp; omega, ?_⟩
      simp only [List.take_succ_cons, List.sum_cons] at hs ⊢
      omega

/-! ### downloads and copies -/

/-- **Download progress per range**: whatever the attempts do (short reads, retryable faults
anywhere, up to the budget), the running sum of the values reported for a range stays in
`[0,len]`; on success the total is exactly `len` — every abandoned attempt was taken back by
exactly what it had reported — and it is 0 when the budget ran out. -/
theorem download_progress (io start len : Nat) (hio : 0 < io) (n : Nat)
    (attempts : List S3V.Download.Attempt) :
    S3V.C02.RunningIn 0 len 0 (S3V.Download.progressOf (S3V.Download.getObject io start len n attempts).1) ∧
    ((S3V.Download.getObject io start len n attempts).2 = .ok →
      (S3V.Download.progressOf (S3V.Download.getObject io start len n attempts).1).sum = len) ∧
    ((S3V.Download.getObject io start len n attempts).2 = .retriesExceeded →
      (S3V.Download.progressOf (S3V.Download.getObject io start len n attempts).1).sum = 0) := by
  have := S3V.C02.getObject_spec io start len hio n attempts
  exact ⟨this.2.2.2.1, this.2.2.2.2.1, this.2.2.2.2.2⟩

/-- **Copy progress**: each part reports its size once, and the sizes sum to the object size
(multipart), respectively the single value is the size (one CopyObject). -/
theorem copy_progress (size c : Nat) (hc : 0 < c) (hs : 0 < size) :
    (((List.range (S3V.Plan.ceilDiv size c)).map
        fun i => S3V.Plan.copyPartSize c i (S3V.Plan.ceilDiv size c) size).sum : Int) = size :=
  S3V.C14.copy_sizes_sum size c hc hs

/-! ### non-vacuity: botocore's body protocol on a 10-byte window, threshold 4 -/
example :
    let c : Rfc Nat := { window := [0,1,2,3,4,5,6,7,8,9] }
    -- disable; signing read; seek(0); enable; send 4+4 then the request is retried: seek(0); send all
    let ops := [Op.disable, .read none, .seek 0 0, .enable, .read (some 4), .read (some 4),
                .seek 0 0, .read (some 4), .read (some 4), .read (some 4), .read (some 4)]
    (runOps c ops).2 = [4, 4, -8, 4, 4, 2] ∧ disabledDelta c ops = 0 ∧
    (({ threshold := 4 } : Agg).feed (runOps c ops).2).2 = [4, 4] ∧
    (({ threshold := 4 } : Agg).feed (runOps c ops).2).1.seen = 2 := by decide

end S3V.C09
