/-
C07 — cancellation is effective, clean and truthfully reported.
Coordinator level (C17 model: which exception is stored, with which message) and transfer level
(Xfer model: every interleaving of a cancel with the submission, the requests and the
announcers).  The four entry points (future.cancel, shutdown(cancel=True, cancel_msg), leaving
the with-block through an exception, Ctrl-C in result()/shutdown()) all end in
`TransferCoordinator.cancel(msg, exc_type)`; that they pass the right message and type is
judged end to end by the explorer (that is where defect D1 was found).
-/
import S3V.Lemmas.Xfer3
import S3V.Props.C17
import S3V.Props.C05
import S3V.Props.C03
import S3V.Props.C08

namespace S3V.C07
open S3V.Xfer
open S3V.Coord (Status)

/-- **Cancelling an unfinished transfer makes it cancelled** (and the status then stays
`cancelled` unless the final step completes its work, in which case it is `success`). -/
theorem cancel_effective (cfg : Cfg) (x x' : X) (h : x.done = false) (hs : step cfg x .cancel = some x') :
    x'.status = .cancelled ∧ x'.cancelSeen = true := by
  simp only [step] at hs
  split at hs
  · rename_i hd; rw [h] at hd; cases hd
  · split at hs <;> cases hs <;> exact ⟨rfl, rfl⟩

theorem cancelled_forever (cfg : Cfg) (x x' : X) (ls : List Label) (h : x.status = .cancelled ∨ x.status = .success)
    (hr : run cfg x ls = some x') : x'.status = .cancelled ∨ x'.status = .success := by
  induction ls generalizing x with
  | nil => simp only [run, Option.some.injEq] at hr; exact hr ▸ h
  | cons l ls ih =>
    simp only [run] at hr
    cases hs : step cfg x l with
    | none => simp [hs] at hr
    | some x1 =>
      simp only [hs] at hr
      apply ih x1 _ hr
      rcases h with h | h
      · exact cancelled_step cfg x x1 l h hs
      · exact Or.inr (success_step cfg x x1 l h hs)

/-- **A transfer cancelled before it started issues no request at all**, never runs on_queued,
and is announced done by the cancelling thread — in this state and in every later one. -/
theorem unstarted_no_requests (cfg : Cfg) (ls : List Label) (x : X) (hr : run cfg {} ls = some x)
    (h : x.announced 0 = true) :
    (∀ j, x.requested j = false) ∧ (∀ j, x.known j = false) ∧ step cfg x .onQueued = none := by
  have inv := reachable_inv cfg ls x hr
  have h1 := S3V.C08.on_queued_absent_if_cancelled_unstarted cfg ls x hr h
  exact ⟨h1.2, (inv.g2.a0 h).1, h1.1⟩

theorem cancel_unstarted_announces (cfg : Cfg) (x x' : X) (h : x.status = .notStarted)
    (hs : step cfg x .cancel = some x') : x'.announced 0 = true ∧ x'.status = .cancelled := by
  simp only [step] at hs
  have hd : x.done = false := by simp [X.done, h, Status.isDone]
  simp only [hd, h, Bool.false_eq_true, if_false, if_true] at hs
  cases hs; exact ⟨by simp [upd], rfl⟩

/-- **A finished transfer keeps its result**: cancelling a done transfer changes nothing. -/
theorem finished_keeps_result (cfg : Cfg) (x : X) (h : x.done = true) : step cfg x .cancel = some x := by
  simp [step, h]

/-- **A racing cancel never yields a reported success whose effect is incomplete**: success
means the final request and every other request of the transfer succeeded (C03). -/
theorem racing_cancel_complete (cfg : Cfg) (ls : List Label) (x : X) (hr : run cfg {} ls = some x)
    (hs : x.status = .success) : ∀ k, x.known k = true → x.res k ≠ .failed :=
  S3V.C03.no_false_success cfg ls x hr hs

/-- **Cleanups run**: a cancelled multipart upload whose id the library received is aborted by
the time its done callbacks run (C05). -/
theorem cancelled_upload_is_aborted (cfg : Cfg) (ls : List Label) (x : X) (who : Nat)
    (hr : run cfg {} ls = some x) (hw : x.announced who = true)
    (h1 : x.pc who ≠ .cleanupLock) (h2 : x.pc who ≠ .aborting)
    (hc : x.status = .cancelled) (hreg : x.abortRegistered = true) :
    x.abortCount = 1 ∧ x.abortOpen = false :=
  S3V.C05.failed_implies_aborted cfg ls x who hr hw h1 h2 (by rw [hc]; simp) hreg

/-- The error stored by a cancel is the one given (type and message are the exception id here),
and it is what `result()` raises (coordinator model). -/
theorem cancel_error_reported (e : Nat) :
    (S3V.Coord.step {} (.cancel e)).1.exc = some e ∧
    S3V.Coord.resultOf (S3V.Coord.step {} (.cancel e)).1 = .raises e := by
  simp [S3V.Coord.step, S3V.Coord.Coord.done, S3V.Coord.Status.isDone, S3V.Coord.announce, S3V.Coord.resultOf]

end S3V.C07
