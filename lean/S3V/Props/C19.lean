/-
C19 — process-pool downloads finish only after all jobs, with cleanup.
Quantifiers: every number of workers, every number of downloads with any number of jobs, every
interleaving of the user, the submitter and the workers (each monitor call, queue operation and
file-system operation is one step), every job failure, every failure in head_object / allocate /
rename, cancels at any point.
-/
import S3V.Lemmas.ProcPool6

namespace S3V.C19
open S3V.ProcPool

theorem step_inv (s s' : S) (l : Label) (h : Inv s) (hs : step s l = some s') : Inv s' := by
  cases l with
  | download n => exact inv_download s s' n h hs
  | cancel t => exact inv_cancel s s' t h hs
  | cancelAll => exact inv_cancelAll s s' h hs
  | shutBegin => exact inv_shutBegin s s' h hs
  | shutSignal => exact inv_shutSignal s s' h hs
  | shutReturn => exact inv_shutReturn s s' h hs
  | subTake => exact inv_subTake s s' h hs
  | subAlloc => exact inv_subAlloc s s' h hs
  | subFail => exact inv_subFail s s' h hs
  | subFailDone => exact inv_subFailDone s s' h hs
  | subAnnounce => exact inv_subAnnounce s s' h hs
  | subPut => exact inv_subPut s s' h hs
  | wTake i => exact inv_wTake s s' i h hs
  | wCheck i => exact inv_wCheck s s' i h hs
  | wWrite i => exact inv_wWrite s s' i h hs
  | wFail i => exact inv_wFail s s' i h hs
  | wDec i => exact inv_wDec s s' i h hs
  | wFinCheck i => exact inv_wFinCheck s s' i h hs
  | wRemove i => exact inv_wRemove s s' i h hs
  | wRename i ok => exact inv_wRename s s' i ok h hs
  | wRenameExc i => exact inv_wRenameExc s s' i h hs
  | wDone i => exact inv_wDone s s' i h hs

theorem run_inv (s s' : S) (ls : List Label) (h : Inv s) (hr : run s ls = some s') : Inv s' := by
  induction ls generalizing s with
  | nil => simp only [run, Option.some.injEq] at hr; exact hr ▸ h
  | cons l ls ih =>
    simp only [run] at hr
    cases hs : step s l with
    | none => simp [hs] at hr
    | some s1 => simp only [hs] at hr; exact ih s1 (step_inv s s1 l h hs) hr

theorem reachable_inv (w : Nat) (ls : List Label) (s : S) (hr : run (S.init w) ls = some s) : Inv s :=
  run_inv _ s ls (init_inv w) hr

/-- **A download's future becomes done only after every job has been accounted for by a worker**
(or the submitter failed before it queued any job). -/
theorem done_after_all_jobs (w : Nat) (ls : List Label) (s : S) (hr : run (S.init w) ls = some s)
    (t : Nat) (hd : (s.t t).done = true) :
    ((s.t t).subFailed = true ∧ (s.t t).queued = 0 ∧ (s.t t).announced = false) ∨
    ((s.t t).announced = true ∧ (s.t t).accounted = (s.t t).n ∧ (s.t t).queued = (s.t t).n ∧ (s.t t).taken = (s.t t).n) := by
  have ti := (reachable_inv w ls s hr).ti t
  cases ha : (s.t t).announced
  · left
    have hsub := ti.p9 hd ha
    have h1 := ti.p1 (Or.inr (Or.inr (Or.inr (Or.inr hsub))))
    have h4 := ti.p4 (Or.inr hsub)
    exact ⟨h4.1, h1.2, rfl⟩
  · right
    have f := ti.f
    rw [if_pos ⟨hd, ha⟩] at f
    have hacc : (s.t t).accounted = (s.t t).n := by
      by_cases hx : (s.t t).announced = true ∧ (s.t t).accounted = (s.t t).n
      · exact hx.2
      · rw [if_neg hx] at f; omega
    have a := ti.a
    have q := ti.q
    have c := ti.c
    exact ⟨rfl, hacc, by omega, by omega⟩

/-- **At the moment a download is done the temporary file is gone, and if no exception is
recorded the destination has been published by rename with every job's bytes written**; a
published destination always holds every job's bytes. -/
theorem file_state_at_done (w : Nat) (ls : List Label) (s : S) (hr : run (S.init w) ls = some s)
    (t : Nat) (hd : (s.t t).done = true) :
    (s.t t).temp = false ∧
    ((s.t t).exc = false → (s.t t).renamed = true ∧ (s.t t).written = (s.t t).n) ∧
    ((s.t t).renamed = true → (s.t t).written = (s.t t).n) := by
  have hI := reachable_inv w ls s hr
  have ti := hI.ti t
  have hle : (s.t t).written ≤ (s.t t).n := by
    have h1 := ti.h
    have a := ti.a
    have q := ti.q
    have c := ti.c
    have := cntW_mono s.w s.wpc (isRan t) (holds t) (isRan_holds t)
    unfold S.cnt at h1 a
    omega
  have hr2 : (s.t t).renamed = true → (s.t t).written = (s.t t).n := fun h => by have := ti.g2 h; omega
  exact ⟨ti.g4 hd, fun he => ⟨ti.g5 hd he, hr2 (ti.g5 hd he)⟩, hr2⟩

/-- a failed or cancelled download never leaves a partial file in place: whenever the
destination was published, all `n` jobs had written their bytes -/
theorem no_partial_publish (w : Nat) (ls : List Label) (s : S) (hr : run (S.init w) ls = some s)
    (t : Nat) (h : (s.t t).renamed = true) : (s.t t).written = (s.t t).n ∧ (s.t t).announced = true := by
  have hI := reachable_inv w ls s hr
  have ti := hI.ti t
  have hle : (s.t t).written ≤ (s.t t).n := by
    have h1 := ti.h
    have a := ti.a
    have q := ti.q
    have c := ti.c
    have := cntW_mono s.w s.wpc (isRan t) (holds t) (isRan_holds t)
    unfold S.cnt at h1 a
    omega
  refine ⟨by have := ti.g2 h; omega, ?_⟩
  cases ha : (s.t t).announced
  · have := ti.g6 ha; rw [h] at this; cases this
  · rfl

/-- an exception, once recorded for a download, stays recorded (so its future raises) -/
theorem exc_step (s s' : S) (l : Label) (hs : step s l = some s') (t : Nat) (hnt : t < s.nt)
    (h : (s.t t).exc = true) : (s'.t t).exc = true := by
  cases l <;> simp only [step] at hs <;> (repeat' (split at hs)) <;> (first | cases hs | skip) <;>
    simp only [upd] <;> (try split) <;> simp_all <;> omega

theorem nt_step (s s' : S) (l : Label) (hs : step s l = some s') : s.nt ≤ s'.nt := by
  cases l <;> simp only [step] at hs <;> (repeat' (split at hs)) <;> (first | cases hs | skip) <;> simp

theorem exc_run (s s' : S) (ls : List Label) (hr : run s ls = some s') (t : Nat) (hnt : t < s.nt)
    (h : (s.t t).exc = true) : (s'.t t).exc = true := by
  induction ls generalizing s with
  | nil => simp only [run, Option.some.injEq] at hr; exact hr ▸ h
  | cons l ls ih =>
    simp only [run] at hr
    cases hs : step s l with
    | none => simp [hs] at hr
    | some s1 =>
      simp only [hs] at hr
      exact ih s1 hr (Nat.lt_of_lt_of_le hnt (nt_step s s1 l hs)) (exc_step s s1 l hs t hnt h)

/-- **Ctrl-C inside the with-block cancels the unfinished downloads**: after
`notify_cancel_all_in_progress` every download that was not done carries an exception, for ever —
so, with `file_state_at_done`, it ends with its temporary file removed and its future raises —
unless it was published before the exception was looked at for the last time. -/
theorem ctrl_c_cancels (s s1 s2 : S) (ls : List Label) (hc : step s .cancelAll = some s1)
    (hr : run s1 ls = some s2) (t : Nat) (hnt : t < s.nt) (hnd : (s.t t).done = false) :
    (s2.t t).exc = true := by
  have h1 : (s1.t t).exc = true := by
    simp only [step] at hc
    cases hc
    simp [hnt, hnd]
  have hn : s1.nt = s.nt := by simp only [step] at hc; cases hc; rfl
  exact exc_run s1 s2 ls hr t (by omega) h1

/-- `future.cancel()` likewise -/
theorem cancel_sticks (s s1 s2 : S) (ls : List Label) (t : Nat) (hc : step s (.cancel t) = some s1)
    (hr : run s1 ls = some s2) : (s2.t t).exc = true := by
  simp only [step] at hc
  split at hc
  · rename_i hnt
    cases hc
    exact exc_run _ s2 ls hr t hnt (by simp [upd])
  · cases hc

/-- **shutdown returns only after the submitter and every worker have exited** (they exit only by
taking the shutdown signal, which is queued behind all requests / all jobs) -/
theorem shutdown_waits_partial (s s' : S) (hs : step s .shutReturn = some s') :
    allWorkersExited s = true ∧ ∃ k, s.shut = .signalling k ∧ k = s.w := by
  simp only [step] at hs
  split at hs
  · rename_i k hk
    split at hs
    · rename_i hg; exact ⟨hg.2, k, hk, hg.1⟩
    · cases hs
  · cases hs

/-! ### non-vacuity: a 2-job download by two workers, completed and published -/
example : (run (S.init 2) [.download 2, .subTake, .subAlloc, .subAnnounce, .subPut, .subPut,
      .wTake 0, .wTake 1, .wCheck 0, .wCheck 1, .wWrite 1, .wWrite 0, .wDec 0, .wDec 1,
      .wFinCheck 1, .wRename 1 true, .wDone 1]).map
      (fun s => ((s.t 0).done, (s.t 0).renamed, (s.t 0).temp, (s.t 0).written, (s.t 0).accounted)) =
    some (true, true, false, 2, 2) := by decide

/-- and one where a cancel arrives between the two jobs: the temporary file is removed -/
example : (run (S.init 1) [.download 2, .subTake, .subAlloc, .subAnnounce, .subPut, .subPut,
      .wTake 0, .wCheck 0, .wWrite 0, .cancel 0, .wDec 0, .wTake 0, .wCheck 0, .wDec 0,
      .wFinCheck 0, .wRemove 0, .wDone 0]).map
      (fun s => ((s.t 0).done, (s.t 0).renamed, (s.t 0).temp, (s.t 0).exc)) =
    some (true, false, false, true) := by decide

end S3V.C19
