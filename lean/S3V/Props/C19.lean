/-
C19 — process-pool downloads finish only after all jobs, with cleanup.
Quantifiers: every number of workers, every number of downloads with any number of jobs, every
interleaving of the user, the submitter and the workers (each monitor call, queue operation and
file-system operation is one step), every job failure, every failure in head_object / allocate /
rename, cancels at any point.
-/
import S3V.Lemmas.ProcPool8

namespace S3V.C19
open S3V.ProcPool

theorem step_inv (s s' : S) (l : Label) (h : Inv s) (hs : step s l = some s') : Inv s' := by
  cases l with
  | download n => exact inv_download s s' n h hs
  | cancel t => exact inv_cancel s s' t h hs
  | cancelAll => exact inv_cancelAll s s' h hs
  | shutBegin => exact inv_shutBegin s s' h hs
  | shutSignal => exact inv_shutSignal s s' h hs
  | shutReturn => exact inv_shutReturn s s' h hs
  | subTake => exact inv_subTake s s' h hs
  | subAlloc => exact inv_subAlloc s s' h hs
  | subFail => exact inv_subFail s s' h hs
  | subFailDone => exact inv_subFailDone s s' h hs
  | subAnnounce => exact inv_subAnnounce s s' h hs
  | subPut => exact inv_subPut s s' h hs
  | wTake i => exact inv_wTake s s' i h hs
  | wCheck i => exact inv_wCheck s s' i h hs
  | wWrite i => exact inv_wWrite s s' i h hs
  | wFail i => exact inv_wFail s s' i h hs
  | wDec i => exact inv_wDec s s' i h hs
  | wFinCheck i => exact inv_wFinCheck s s' i h hs
  | wRemove i => exact inv_wRemove s s' i h hs
  | wRename i ok => exact inv_wRename s s' i ok h hs
  | wRenameExc i => exact inv_wRenameExc s s' i h hs
  | wDone i => exact inv_wDone s s' i h hs

theorem run_inv (s s' : S) (ls : List Label) (h : Inv s) (hr : run s ls = some s') : Inv s' := by
  induction ls generalizing s with
  | nil => simp only [run, Option.some.injEq] at hr; exact hr ▸ h
  | cons l ls ih =>
    simp only [run] at hr
    cases hs : step s l with
    | none => simp [hs] at hr
    | some s1 => simp only [hs] at hr; exact ih s1 (step_inv s s1 l h hs) hr

theorem reachable_inv (w : Nat) (ls : List Label) (s : S) (hr : run (S.init w) ls = some s) : Inv s :=
  run_inv _ s ls (init_inv w) hr

/-- **A download's future becomes done only after every job has been accounted for by a worker**
(or the submitter failed before it queued any job). -/
theorem done_after_all_jobs (w : Nat) (ls : List Label) (s : S) (hr : run (S.init w) ls = some s)
    (t : Nat) (hd : (s.t t).done = true) :
    ((s.t t).subFailed = true ∧ (s.t t).queued = 0 ∧ (s.t t).announced = false) ∨
    ((s.t t).announced = true ∧ (s.t t).accounted = (s.t t).n ∧ (s.t t).queued = (s.t t).n ∧ (s.t t).taken = (s.t t).n) := by
  have ti := (reachable_inv w ls s hr).ti t
  cases ha : (s.t t).announced
  · left
    have hsub := ti.p9 hd ha
    have h1 := ti.p1 (Or.inr (Or.inr (Or.inr (Or.inr hsub))))
    have h4 := ti.p4 (Or.inr hsub)
    exact ⟨h4.1, h1.2, rfl⟩
  · right
    have f := ti.f
    rw [if_pos ⟨hd, ha⟩] at f
    have hacc : (s.t t).accounted = (s.t t).n := by
      by_cases hx : (s.t t).announced = true ∧ (s.t t).accounted = (s.t t).n
      · exact hx.2
      · rw [if_neg hx] at f; omega
    have a := ti.a
    have q := ti.q
    have c := ti.c
    exact ⟨rfl, hacc, by omega, by omega⟩

/-- **At the moment a download is done the temporary file is gone, and if no exception is
recorded the destination has been published by rename with every job's bytes written**; a
published destination always holds every job's bytes. -/
theorem file_state_at_done (w : Nat) (ls : List Label) (s : S) (hr : run (S.init w) ls = some s)
    (t : Nat) (hd : (s.t t).done = true) :
    (s.t t).temp = false ∧
    ((s.t t).exc = false → (s.t t).renamed = true ∧ (s.t t).written = (s.t t).n) ∧
    ((s.t t).renamed = true → (s.t t).written = (s.t t).n) := by
  have hI := reachable_inv w ls s hr
  have ti := hI.ti t
  have hle : (s.t t).written ≤ (s.t t).n := by
    have h1 := ti.h
    have a := ti.a
    have q := ti.q
    have c := ti.c
    have := cntW_mono s.w s.wpc (isRan t) (holds t) (isRan_holds t)
    unfold S.cnt at h1 a
    omega
  have hr2 : (s.t t).renamed = true → (s.t t).written = (s.t t).n := fun h => by have := ti.g2 h; omega
  exact ⟨ti.g4 hd, fun he => ⟨ti.g5 hd he, hr2 (ti.g5 hd he)⟩, hr2⟩

/-- a failed or cancelled download never leaves a partial file in place: whenever the
destination was published, all `n` jobs had written their bytes -/
theorem no_partial_publish (w : Nat) (ls : List Label) (s : S) (hr : run (S.init w) ls = some s)
    (t : Nat) (h : (s.t t).renamed = true) : (s.t t).written = (s.t t).n ∧ (s.t t).announced = true := by
  have hI := reachable_inv w ls s hr
  have ti := hI.ti t
  have hle : (s.t t).written ≤ (s.t t).n := by
    have h1 := ti.h
    have a := ti.a
    have q := ti.q
    have c := ti.c
    have := cntW_mono s.w s.wpc (isRan t) (holds t) (isRan_holds t)
    unfold S.cnt at h1 a
    omega
  refine ⟨by have := ti.g2 h; omega, ?_⟩
  cases ha : (s.t t).announced
  · have := ti.g6 ha; rw [h] at this; cases this
  · rfl

/-- an exception, once recorded for a download, stays recorded (so its future raises) -/
theorem exc_step (s s' : S) (l : Label) (hs : step s l = some s') (t : Nat) (hnt : t < s.nt)
    (h : (s.t t).exc = true) : (s'.t t).exc = true := by
  cases l <;> simp only [step] at hs <;> (repeat' (split at hs)) <;> (first | cases hs | skip) <;>
    simp only [upd] <;> (try split) <;> simp_all <;> omega

theorem nt_step (s s' : S) (l : Label) (hs : step s l = some s') : s.nt ≤ s'.nt := by
  cases l <;> simp only [step] at hs <;> (repeat' (split at hs)) <;> (first | cases hs | skip) <;> simp

theorem exc_run (s s' : S) (ls : List Label) (hr : run s ls = some s') (t : Nat) (hnt : t < s.nt)
    (h : (s.t t).exc = true) : (s'.t t).exc = true := by
  induction ls generalizing s with
  | nil => simp only [run, Option.some.injEq] at hr; exact hr ▸ h
  | cons l ls ih =>
    simp only [run] at hr
    cases hs : step s l with
    | none => simp [hs] at hr
    | some s1 =>
      simp only [hs] at hr
      exact ih s1 hr (Nat.lt_of_lt_of_le hnt (nt_step s s1 l hs)) (exc_step s s1 l hs t hnt h)

/-- **Ctrl-C inside the with-block cancels the unfinished downloads**: after
`notify_cancel_all_in_progress` every download that was not done carries an exception, for ever —
so, with `file_state_at_done`, it ends with its temporary file removed and its future raises —
unless it was published before the exception was looked at for the last time. -/
theorem ctrl_c_cancels (s s1 s2 : S) (ls : List Label) (hc : step s .cancelAll = some s1)
    (hr : run s1 ls = some s2) (t : Nat) (hnt : t < s.nt) (hnd : (s.t t).done = false) :
    (s2.t t).exc = true := by
  have h1 : (s1.t t).exc = true := by
    simp only [step] at hc
    cases hc
    simp [hnt, hnd]
  have hn : s1.nt = s.nt := by simp only [step] at hc; cases hc; rfl
  exact exc_run s1 s2 ls hr t (by omega) h1

/-- `future.cancel()` likewise -/
theorem cancel_sticks (s s1 s2 : S) (ls : List Label) (t : Nat) (hc : step s (.cancel t) = some s1)
    (hr : run s1 ls = some s2) : (s2.t t).exc = true := by
  simp only [step] at hc
  split at hc
  · rename_i hnt
    cases hc
    exact exc_run _ s2 ls hr t hnt (by simp [upd])
  · cases hc

theorem run_qinv (s s' : S) (ls : List Label) (hI : Inv s) (h : QInv s) (hr : run s ls = some s') : QInv s' := by
  induction ls generalizing s with
  | nil => simp only [run, Option.some.injEq] at hr; exact hr ▸ h
  | cons l ls ih =>
    simp only [run] at hr
    cases hs : step s l with
    | none => simp [hs] at hr
    | some s1 => simp only [hs] at hr; exact ih s1 (step_inv s s1 l hI hs) (qinv_step s s1 l hI h hs) hr

/-- **shutdown waits for all downloads**: in every reachable state in which `shutdown()` has
returned, every download that was submitted is done (and hence, by `file_state_at_done`, its file is
complete and in place or its temporary file has been removed).  The argument is the FIFO order of
the two queues: the submitter takes its shutdown signal only after every request, the workers are
signalled only after the submitter has exited, and a worker takes a signal only when no job is
left; the worker that counted a download's last job finalizes it before it can take anything else. -/
theorem shutdown_waits (w : Nat) (ls : List Label) (s : S) (hr : run (S.init w) ls = some s)
    (hsh : s.shut = .returned) (t : Nat) (ht : t < s.nt) : (s.t t).done = true := by
  have hI := reachable_inv w ls s hr
  have hQ := run_qinv _ s ls (init_inv w) (qinit w) hr
  obtain ⟨hall, hw⟩ := hQ.s1 hsh
  have hex : ∃ i, s.wpc i = .exited := ⟨0, hall 0 hw⟩
  have hspc := hQ.w2b hex
  have ti := hI.ti t
  have hreq := (hQ.r3 hspc).2 t
  have hwork := hQ.w3 hex t
  have hsubne : (s.t t).sub ≠ .none := fun e => by have := ti.p0.mp e; omega
  have hcr : s.reqQ.count (some t) = 0 := List.count_eq_zero_of_not_mem hreq
  have hcw : s.workQ.count (some t) = 0 := List.count_eq_zero_of_not_mem hwork
  have sl := hI.sl' t
  cases hsub : (s.t t).sub with
  | none => exact absurd hsub hsubne
  | pending => have := ti.rq; rw [hcr, if_pos hsub] at this; cases this
  | sizing => have := sl.1 hsub; rw [hspc] at this; cases this
  | allocated => have := sl.2.1 hsub; rw [hspc] at this; cases this
  | putting => have := sl.2.2.1 hsub; rw [hspc] at this; cases this
  | failing => have := sl.2.2.2 hsub; rw [hspc] at this; cases this
  | failedDone => exact ti.p10 hsub
  | queuedAll =>
    obtain ⟨hann, hq⟩ := ti.p7 hsub
    have hH : s.cnt (holds t) = 0 := by
      apply cntW_zero_of_all
      intro i hi; rw [hall i hi]; rfl
    have hF : s.cnt (isFin t) = 0 := by
      apply cntW_zero_of_all
      intro i hi; rw [hall i hi]; rfl
    have a := ti.a
    have q := ti.q
    have f := ti.f
    rw [hcw] at q
    rw [hH] at a
    have hacc : (s.t t).accounted = (s.t t).n := by omega
    cases hd : (s.t t).done
    · have h1 : ¬((s.t t).done = true ∧ (s.t t).announced = true) := by simp [hd]
      have h2 : (s.t t).announced = true ∧ (s.t t).accounted = (s.t t).n := ⟨hann, hacc⟩
      rw [hF, if_neg h1, if_pos h2] at f; omega
    · rfl

/-- the guard itself: `shutdown()` returns only after the submitter and every worker have exited -/
theorem shutdown_waits_guard (s s' : S) (hs : step s .shutReturn = some s') :
    allWorkersExited s = true ∧ ∃ k, s.shut = .signalling k ∧ k = s.w := by
  simp only [step] at hs
  split at hs
  · rename_i k hk
    split at hs
    · rename_i hg; exact ⟨hg.2, k, hk, hg.1⟩
    · cases hs
  · cases hs

/-! ### non-vacuity: a 2-job download by two workers, completed and published -/
example : (run (S.init 2) [.download 2, .subTake, .subAlloc, .subAnnounce, .subPut, .subPut,
      .wTake 0, .wTake 1, .wCheck 0, .wCheck 1, .wWrite 1, .wWrite 0, .wDec 0, .wDec 1,
      .wFinCheck 1, .wRename 1 true, .wDone 1]).map
      (fun s => ((s.t 0).done, (s.t 0).renamed, (s.t 0).temp, (s.t 0).written, (s.t 0).accounted)) =
    some (true, true, false, 2, 2) := by decide

/-- a run in which shutdown returns (the hypothesis of `shutdown_waits` is satisfiable) -/
example : (run (S.init 1) [.download 1, .shutBegin, .subTake, .subAlloc, .subAnnounce, .subPut, .subTake, .shutSignal,
      .wTake 0, .wCheck 0, .wWrite 0, .wDec 0, .wFinCheck 0, .wRename 0 true, .wDone 0, .wTake 0, .shutReturn]).map
      (fun s => (decide (s.shut = .returned), (s.t 0).done, s.nt)) = some (true, true, 1) := by decide

/-- and one where a cancel arrives between the two jobs: the temporary file is removed -/
example : (run (S.init 1) [.download 2, .subTake, .subAlloc, .subAnnounce, .subPut, .subPut,
      .wTake 0, .wCheck 0, .wWrite 0, .cancel 0, .wDec 0, .wTake 0, .wCheck 0, .wDec 0,
      .wFinCheck 0, .wRemove 0, .wDone 0]).map
      (fun s => ((s.t 0).done, (s.t 0).renamed, (s.t 0).temp, (s.t 0).exc)) =
    some (true, false, false, true) := by decide

end S3V.C19
