/-
C17 — a transfer's state only moves forward and stays self-consistent.
Quantifier: every finite sequence of the coordinator's public operations (unbounded length).
Interleavings of threads are sequences of these atomic steps (each mutator holds the
coordinator lock); that the real operations *are* atomic is what the scheduled
correspondence checks (a check outside the lock shows up as a divergence there).
-/
import S3V.Model.Coord
import S3V.Gen.CoordStep

namespace S3V.C17
open S3V.Coord

/-- **done() is stable**: once done, every operation leaves the transfer done. -/
theorem done_stable (c : Coord) (o : Op) (h : c.done = true) : (step c o).1.done = true := by
  cases o <;> simp [step, Coord.done, announce] at h ⊢ <;>
    first
    | (simp [Status.isDone]; done)
    | (simp [h]; done)
    | (split <;> simp_all [Status.isDone, Coord.done, announce]; done)
    | (intros; simp_all [Status.isDone])

theorem done_stable_run (c : Coord) (ops : List Op) (h : c.done = true) : (run c ops).done = true := by
  induction ops generalizing c with
  | nil => exact h
  | cons o ops ih => exact ih _ (done_stable c o h)

/-- **A finished transfer cannot be restarted**: the transitions to `queued`/`running` are
refused with an error and change nothing. -/
theorem no_restart (c : Coord) (h : c.done = true) :
    step c .toQueued = (c, .runtimeError) ∧ step c .toRunning = (c, .runtimeError) := by
  simp [step, h]

/-- The status never moves from a final state to a non-final one, whatever is called. -/
theorem status_forward (c : Coord) (o : Op) (h : c.done = true) :
    (step c o).1.status = .success ∨ (step c o).1.status = .failed ∨ (step c o).1.status = .cancelled := by
  have := done_stable c o h
  unfold Coord.done at this
  cases hs : (step c o).1.status <;> simp [hs, Status.isDone] at this ⊢

/-- **The first failure or cancellation recorded is the one reported**: once an exception is
stored on a done transfer, no operation replaces it except the successful completion of the
final step (`set_result`) or an explicit override (`set_exception(…, override=True)`, which is
what the user's `TransferFuture.set_exception` does). -/
theorem first_failure_kept (c : Coord) (o : Op) (e : Nat)
    (hd : c.done = true) (he : c.exc = some e)
    (h1 : ∀ r, o ≠ .setResult r) (h2 : ∀ e', o ≠ .setException e' true)
    (h3 : ∀ e', o ≠ .futureSetException e') :
    (step c o).1.exc = some e ∧ (step c o).1.status = c.status := by
  cases o with
  | setResult r => exact absurd rfl (h1 r)
  | setException e' ov =>
    cases ov with
    | true => exact absurd rfl (h2 e')
    | false => simp [step, hd, he]
  | cancel e' => simp [step, hd, he]
  | toQueued => simp [step, hd, he]
  | toRunning => simp [step, hd, he]
  | announceDone => simp only [step, announce]; split <;> simp [he]
  | addDoneCallback i => simp [step, he]
  | addFailureCleanup i => simp [step, he]
  | futureSetException e' => exact absurd rfl (h3 e')

theorem first_failure_kept_run (c : Coord) (ops : List Op) (e : Nat)
    (hd : c.done = true) (he : c.exc = some e)
    (h : ∀ o ∈ ops, (∀ r, o ≠ .setResult r) ∧ (∀ e', o ≠ .setException e' true) ∧
                    (∀ e', o ≠ .futureSetException e')) :
    (run c ops).exc = some e ∧ (run c ops).status = c.status := by
  induction ops generalizing c with
  | nil => exact ⟨he, rfl⟩
  | cons o ops ih =>
    have ho := h o (by simp)
    obtain ⟨a, b⟩ := first_failure_kept c o e hd he ho.1 ho.2.1 ho.2.2
    have hd' := done_stable c o hd
    obtain ⟨x, y⟩ := ih (step c o).1 hd' a (fun o' ho' => h o' (by simp [ho']))
    exact ⟨x, by show (run (step c o).1 ops).status = c.status; rw [y, b]⟩

/-- Before the transfer is done the *first* `set_exception` / `cancel` is recorded. -/
theorem first_recorded (c : Coord) (e : Nat) (h : c.done = false) :
    (step c (.setException e false)).1.exc = some e ∧ (step c (.cancel e)).1.exc = some e := by
  constructor
  · simp [step, h]
  · simp only [step, h]
    simp only [Bool.false_eq_true, if_false]
    split <;> simp [announce]

/-- Consistency invariant: an exception is stored exactly when the status is failed or
cancelled. -/
def Consistent (c : Coord) : Prop :=
  (c.exc.isSome = true ↔ (c.status = .failed ∨ c.status = .cancelled))

theorem consistent_init : Consistent ({} : Coord) := by simp [Consistent]

theorem consistent_announce (c : Coord) (h : Consistent c) : Consistent (announce c) := by
  unfold Consistent announce at *
  split <;> simpa using h

theorem consistent_step (c : Coord) (o : Op) (h : Consistent c) : Consistent (step c o).1 := by
  cases o with
  | setResult r => simp [step, Consistent]
  | setException e ov =>
    simp only [step]
    split
    · simp [Consistent]
    · exact h
  | cancel e =>
    simp only [step]
    split
    · exact h
    · split
      · apply consistent_announce; simp [Consistent]
      · simp [Consistent]
  | toQueued =>
    simp only [step]
    split
    · exact h
    · rename_i hd
      unfold Consistent at *
      simp only [Coord.done] at hd
      cases hs : c.status <;> simp [hs, Status.isDone] at hd h ⊢ <;> simpa using h
  | toRunning =>
    simp only [step]
    split
    · exact h
    · rename_i hd
      unfold Consistent at *
      simp only [Coord.done] at hd
      cases hs : c.status <;> simp [hs, Status.isDone] at hd h ⊢ <;> simpa using h
  | announceDone => exact consistent_announce c h
  | addDoneCallback i => simpa [step, Consistent] using h
  | addFailureCleanup i => simpa [step, Consistent] using h
  | futureSetException e =>
    simp only [step]
    split
    · simp [Consistent]
    · exact h

/-- **Status, stored exception and result agree in every reachable state** (so in particular
once done has been announced): an exception is stored exactly when the status is failed or
cancelled, and `result()` — once it no longer blocks — raises exactly that exception, and
returns normally exactly when none is stored. -/
theorem announced_consistent (ops : List Op) :
    let c := run {} ops
    Consistent c ∧
    (c.event = true → ∀ e, (resultOf c = .raises e ↔ c.exc = some e)) ∧
    (c.event = true → ((∃ r, resultOf c = .returns r) ↔ c.exc = none)) := by
  intro c
  have hc : Consistent c := by
    have : ∀ (c0 : Coord), Consistent c0 → Consistent (run c0 ops) := by
      induction ops with
      | nil => intro c0 h; exact h
      | cons o ops ih => intro c0 h; exact ih _ (consistent_step c0 o h)
    exact this {} consistent_init
  refine ⟨hc, ?_, ?_⟩
  · intro hev e
    unfold resultOf
    simp only [hev, if_true]
    cases c.exc <;> simp
  · intro hev
    unfold resultOf
    simp only [hev, if_true]
    cases c.exc <;> simp

/-- `announce_done` is idempotent on the callback lists: every registered cleanup / done
callback runs at most once however often done is announced (they are moved out of the lists). -/
theorem announce_runs_once (c : Coord) :
    (announce (announce c)).ranDone = (announce c).ranDone ∧
    (announce (announce c)).ranCleanups = (announce c).ranCleanups := by
  unfold announce
  split <;> simp

/-! ### non-vacuity -/
example : (run {} [.toQueued, .toRunning, .setException 7 false, .cancel 9, .setException 8 false,
                   .announceDone]).exc = some 7 := by decide
example : resultOf (run {} [.cancel 3]) = .raises 3 := by decide
example : (run {} [.cancel 3, .setResult 1]).status = .success := by decide

/-! ### the tie to the source: `Gen.coordStep` is translated from futures.py on every run

The translator (`extract.gen_coordstep`) executes `set_result`, `set_exception`, `cancel`,
`set_status_to_queued / running` (through `_transition_to_non_done_state`) and `TransferFuture.set_exception`
symbolically, path by path, and writes the result as a Lean function of the same type as `Coord.step`.
The theorems above are about the hand-written `step`; this one says they are about the code. -/

/-- Whatever the translated source does to status / exception / result (and whether it announces),
the model's `step` does exactly the same — for every state and operation. -/
theorem coord_step_from_source (c : Coord) (op : Op) (r : Coord × Out)
    (h : Gen.coordStep c op = some r) : step c op = r := by
  cases op <;> simp only [Gen.coordStep, Option.some.injEq, reduceCtorEq] at h <;> subst h <;>
    cases c <;> rename_i st _ _ _ _ _ _ _ <;> cases st <;> simp [step, Coord.done, Status.isDone, announce]

/-- The translation covers every operation that touches status / exception / result. -/
theorem coord_step_covers (c : Coord) (op : Op) :
    (Gen.coordStep c op).isSome ∨ (∃ i, op = .addDoneCallback i) ∨ (∃ i, op = .addFailureCleanup i) ∨
      op = .announceDone := by
  cases op <;> simp [Gen.coordStep]

/-- Every write of status / exception / result happens under the state lock (what makes one operation
one atomic step of the model), and no method announces done while holding it (defect D3). -/
theorem coord_locking_from_source :
    Gen.coordWritesWithoutLock = [] ∧ Gen.coordAnnouncesUnderLock = [] := by decide

/-- `announce_done` as the model's `announce` has it: cleanups unless success, then the event, then the
done callbacks (each runner takes its lock, runs the list and empties it — checked by the translator). -/
theorem announce_order_from_source :
    Gen.announceOrder =
      ["if status != 'success': _run_failure_cleanups", "_done_event.set", "_run_done_callbacks"] := by decide

example : Gen.coordStep {} (.cancel 3) = some (announce { status := .cancelled, exc := some 3 }, .ok) := by decide

end S3V.C17
