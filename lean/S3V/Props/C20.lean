/-
C20 — CRT manager glue: one permit per transfer, ordered completion, temp cleanup.
Quantifiers: every permit count, every sequence of upload / download / delete submissions against
a client whose requests succeed, fail, are cancelled or fail at construction, completed in any
order, with more transfers than permits.
-/
import S3V.Model.Crt

namespace S3V.C20
open S3V.Crt

def TInv (x : T) : Prop :=
  (x.submitted = true →
    (x.outstanding = true → x.released = 0 ∧ x.log = []) ∧
    (x.outstanding = false → x.released = 1 ∧
        x.log.getLast? = some .eventSet ∧
        (∃ pre, x.log = pre ++ [.subscribers, .release, .eventSet] ∧ .subscribers ∉ pre ∧ .eventSet ∉ pre ∧ .release ∉ pre)) ∧
    (x.kind = .downloadPath → x.outstanding = false → x.log.length > 3 →
        (x.fs = .renamed ∧ x.failed = false ∧ x.log.head? = some .fsRename ∧ .fsRemove ∉ x.log) ∨
        (x.fs = .removed ∧ .fsRemove ∈ x.log)) ∧
    (x.failed = true → x.kind = .downloadPath → x.log.length > 3 → x.fs = .removed) ∧
    (x.outstanding = true → x.kind = .downloadPath → x.fs = .tempPresent))

structure Inv (c : Crt) : Prop where
  each : ∀ i, i < c.n → TInv (c.t i) ∧ (c.t i).submitted = true
  none : ∀ i, c.n ≤ i → (c.t i).submitted = false ∧ (c.t i).outstanding = false
  perm : c.free + outstandingCount c = c.cap

theorem count_upd_new (f : Nat → T) (n : Nat) (v : T) :
    ((List.range (n + 1)).filter fun i => (upd f n v i).outstanding).length =
      ((List.range n).filter fun i => (f i).outstanding).length + (if v.outstanding then 1 else 0) := by
  rw [List.range_succ, List.filter_append, List.length_append]
  have h1 : (List.range n).filter (fun i => (upd f n v i).outstanding) = (List.range n).filter (fun i => (f i).outstanding) := by
    apply List.filter_congr
    intro i hi
    have : i ≠ n := by have := List.mem_range.mp hi; omega
    simp [upd, this]
  rw [h1]
  simp [upd]
  split <;> simp_all

theorem count_upd_old (f : Nat → T) (n i : Nat) (v : T) (hi : i < n) (ho : (f i).outstanding = true)
    (hv : v.outstanding = false) :
    ((List.range n).filter fun k => (upd f i v k).outstanding).length + 1 =
      ((List.range n).filter fun k => (f k).outstanding).length := by
  induction n with
  | zero => omega
  | succ n ih =>
    rw [List.range_succ, List.filter_append, List.filter_append, List.length_append, List.length_append]
    by_cases hin : i = n
    · subst hin
      have h1 : (List.range i).filter (fun k => (upd f i v k).outstanding) = (List.range i).filter (fun k => (f k).outstanding) := by
        apply List.filter_congr
        intro k hk
        have : k ≠ i := by have := List.mem_range.mp hk; omega
        simp [upd, this]
      rw [h1]
      simp [upd, hv, ho]
    · have := ih (by omega)
      have h2 : (upd f i v n).outstanding = (f n).outstanding := by
        have : n ≠ i := fun e => hin e.symm
        simp [upd, this]
      simp only [List.filter_cons, List.filter_nil, h2]
      split <;> simp <;> omega

theorem finish_tinv (x : T) (err rf ff : Bool) (hs : x.submitted = true) (hr : x.released = 0) :
    TInv (x.finish err rf ff) := by
  intro _
  unfold T.finish
  split
  · refine ⟨by simp, ?_, ?_, ?_, by simp⟩
    · intro _
      refine ⟨by simp [hr], by simp, ?_⟩
      refine ⟨_, rfl, ?_, ?_, ?_⟩ <;> (split <;> (try split) <;> simp)
    · intro _ _ _
      cases err <;> cases rf <;> simp
    · intro hf _ _
      cases err <;> cases rf <;> simp_all
  · rename_i hk
    refine ⟨by simp, ?_, ?_, ?_, by simp⟩
    · intro _
      exact ⟨by simp [hr], by simp, ⟨[], by simp, by simp, by simp, by simp⟩⟩
    · intro hk'; exact absurd hk' hk
    · intro _ hk'; exact absurd hk' hk

theorem init_inv (cap : Nat) (ff : Bool) : Inv (Crt.init cap ff) := by
  refine ⟨fun i hi => by simp [Crt.init] at hi, fun i _ => by simp [Crt.init], by simp [Crt.init, outstandingCount]⟩

theorem step_inv (c c' : Crt) (o : Op) (h : Inv c) (hs : step c o = some c') : Inv c' := by
  obtain ⟨he, hn, hp⟩ := h
  cases o with
  | shutdownReturn =>
    simp only [step] at hs
    split at hs
    · cases hs; exact ⟨he, hn, hp⟩
    · cases hs
  | submit k fails =>
    simp only [step] at hs
    split at hs
    · cases hs
    · rename_i hfree
      split at hs
      · cases hs
        refine ⟨?_, ?_, ?_⟩
        · intro i hi
          by_cases e : i = c.n
          · subst e
            simp only [upd, if_true]
            refine ⟨?_, by simp⟩
            intro _
            refine ⟨by simp, ?_, by simp, by simp, by simp⟩
            intro _
            exact ⟨rfl, by simp, ⟨[], by simp, by simp, by simp, by simp⟩⟩
          · have : i < c.n := by simp only at hi; omega
            simpa [upd, e] using he i this
        · intro i hi
          have : i ≠ c.n := by simp only at hi; omega
          have h2 := hn i (by simp only at hi; omega)
          simpa [upd, this] using h2
        · simp only [outstandingCount] at hp ⊢
          rw [count_upd_new]; simpa using hp
      · cases hs
        refine ⟨?_, ?_, ?_⟩
        · intro i hi
          by_cases e : i = c.n
          · subst e
            simp only [upd, if_true]
            refine ⟨?_, by simp⟩
            intro _
            refine ⟨by simp, by simp, by simp, by simp, ?_⟩
            intro _ hk; simp only at hk; simp [hk]
          · have : i < c.n := by simp only at hi; omega
            simpa [upd, e] using he i this
        · intro i hi
          have : i ≠ c.n := by simp only at hi; omega
          have h2 := hn i (by simp only at hi; omega)
          simpa [upd, this] using h2
        · simp only [outstandingCount] at hp ⊢
          rw [count_upd_new]; simp only [if_true]; omega
  | complete i err rf =>
    simp only [step] at hs
    split at hs
    · rename_i hg
      cases hs
      obtain ⟨hi, hout⟩ := hg
      obtain ⟨hti, hsub⟩ := he i hi
      have hold := (hti hsub).1 hout
      refine ⟨?_, ?_, ?_⟩
      · intro j hj
        by_cases e : j = i
        · subst e
          simp only [upd, if_true]
          exact ⟨finish_tinv _ err rf _ hsub hold.1, by unfold T.finish; split <;> exact hsub⟩
        · simpa [upd, e] using he j hj
      · intro j hj
        have : j ≠ i := by simp only at hj; omega
        simpa [upd, this] using hn j hj
      · simp only [outstandingCount] at hp ⊢
        have := count_upd_old c.t c.n i ((c.t i).finish err rf c.futureFirst) hi hout (by unfold T.finish; split <;> rfl)
        omega
    · cases hs

theorem run_inv (c c' : Crt) (os : List Op) (h : Inv c) (hr : run c os = some c') : Inv c' := by
  induction os generalizing c with
  | nil => simp only [run, Option.some.injEq] at hr; exact hr ▸ h
  | cons o os ih =>
    simp only [run] at hr
    cases hs : step c o with
    | none => simp [hs] at hr
    | some c1 => simp only [hs] at hr; exact ih c1 (step_inv c c1 o h hs) hr

/-- **Permit conservation**: free permits + outstanding transfers = the semaphore's size, in every
history (so never more than 128 requests are handed to the CRT client). -/
theorem permit_conservation (cap : Nat) (ff : Bool) (os : List Op) (c : Crt) (hr : run (Crt.init cap ff) os = some c) :
    c.free + outstandingCount c = cap := by
  have := (run_inv _ c os (init_inv cap ff) hr).perm
  have hc : c.cap = cap := by
    have : ∀ (c0 c1 : Crt) (os : List Op), run c0 os = some c1 → c1.cap = c0.cap := by
      intro c0 c1 os
      induction os generalizing c0 with
      | nil => intro h; simp only [run, Option.some.injEq] at h; subst h; rfl
      | cons o os ih =>
        intro h
        simp only [run] at h
        cases hs : step c0 o with
        | none => simp [hs] at h
        | some c2 =>
          simp only [hs] at h
          rw [ih c2 h]
          cases o <;> simp only [step] at hs <;> (repeat' (split at hs)) <;> (first | cases hs | skip) <;> rfl
    exact this _ c os hr
  omega

/-- **Exactly one permit per transfer, on every path** (construction failure, success, error,
cancel): a transfer whose done callback has run gave its permit back exactly once; one that is
still outstanding has not. -/
theorem one_release_per_transfer (cap : Nat) (ff : Bool) (os : List Op) (c : Crt) (hr : run (Crt.init cap ff) os = some c)
    (i : Nat) (hi : i < c.n) :
    ((c.t i).outstanding = false → (c.t i).released = 1) ∧ ((c.t i).outstanding = true → (c.t i).released = 0) := by
  obtain ⟨ht, hsub⟩ := (run_inv _ c os (init_inv cap ff) hr).each i hi
  exact ⟨fun h => ((ht hsub).2.1 h).1, fun h => ((ht hsub).1 h).1⟩

/-- **Ordered completion**: the subscribers' on_done ran before the permit was released, and both
before the transfer is reported as having finished its callbacks (the event is the last step). -/
theorem done_order (cap : Nat) (ff : Bool) (os : List Op) (c : Crt) (hr : run (Crt.init cap ff) os = some c)
    (i : Nat) (hi : i < c.n) (hd : (c.t i).outstanding = false) :
    ∃ pre, (c.t i).log = pre ++ [.subscribers, .release, .eventSet] ∧
      .subscribers ∉ pre ∧ .eventSet ∉ pre ∧ .release ∉ pre := by
  obtain ⟨ht, hsub⟩ := (run_inv _ c os (init_inv cap ff) hr).each i hi
  exact ((ht hsub).2.1 hd).2.2

/-- **Path downloads are published by rename on success, the temporary file is removed on error**
(also when the rename itself fails, which then makes the future fail). -/
theorem rename_or_remove (cap : Nat) (ff : Bool) (os : List Op) (c : Crt) (hr : run (Crt.init cap ff) os = some c)
    (i : Nat) (hi : i < c.n) (hk : (c.t i).kind = .downloadPath) (hd : (c.t i).outstanding = false)
    (hreq : (c.t i).log.length > 3) :
    ((c.t i).fs = .renamed ∧ (c.t i).failed = false ∧ (c.t i).log.head? = some .fsRename ∧ .fsRemove ∉ (c.t i).log) ∨
    ((c.t i).fs = .removed ∧ .fsRemove ∈ (c.t i).log) := by
  obtain ⟨ht, hsub⟩ := (run_inv _ c os (init_inv cap ff) hr).each i hi
  exact (ht hsub).2.2.1 hk hd hreq

/-- a path download whose future fails never leaves the temporary file behind (nor a published
destination) -/
theorem failed_download_removed (cap : Nat) (ff : Bool) (os : List Op) (c : Crt) (hr : run (Crt.init cap ff) os = some c)
    (i : Nat) (hi : i < c.n) (hk : (c.t i).kind = .downloadPath) (hf : (c.t i).failed = true)
    (hreq : (c.t i).log.length > 3) : (c.t i).fs = .removed := by
  obtain ⟨ht, hsub⟩ := (run_inv _ c os (init_inv cap ff) hr).each i hi
  exact (ht hsub).2.2.2.1 hf hk hreq

/-- **Shutdown returns only after every transfer's done callbacks ran.** -/
theorem shutdown_after_callbacks (c c' : Crt) (h : step c .shutdownReturn = some c') :
    ∀ i, i < c.n → .eventSet ∈ (c.t i).log := by
  simp only [step] at h
  split at h
  · rename_i hall
    intro i hi
    unfold allDone at hall
    rw [List.all_eq_true] at hall
    have := hall i (List.mem_range.mpr hi)
    simpa using this
  · cases h

/-- a submitter blocks while all permits are out -/
theorem submit_blocks (c : Crt) (k : Kind) (f : Bool) (h : c.free = 0) : step c (.submit k f) = none := by
  simp [step, h]

/-- the permit count read from the source -/
theorem crt_permits : Gen.crtPermits = 128 := by decide

/-! ### non-vacuity -/
example : (run (Crt.init 2) [.submit .downloadPath false, .submit .upload true, .submit .delete false,
    .complete 2 true false, .complete 0 false false, .shutdownReturn]).map
      (fun c => (c.free, (c.t 0).fs, (c.t 0).log, (c.t 1).released)) =
    some (2, .renamed, [.fsRename, .subscribers, .release, .eventSet], 1) := by decide

end S3V.C20
