/-
C18 — shutdown is a barrier; transfers sharing a manager are isolated.

Barrier: `TransferManager._shutdown` waits for the tracked transfers and then shuts the three
executors down with `wait=True` in the order submission, request, io (a wiring fact re-read from
the source: C10.wiring_ok).  `ThreadPoolExecutor.shutdown(wait=True)` refuses new work, lets the
queued work run and joins the workers.  Model: a stage with a `shut` flag and a `join` event.
Isolation (partial): transfers share nothing but the stages' permits and threads; permits are
conserved (C10, C12), so another transfer can delay but not starve or corrupt one — each
transfer's outcome is a function of its own coordinator and tasks (models Coord / Xfer take no
input from other transfers).  That the code shares nothing else is judged by the explorer
(2-3 mixed transfers, any subset failing or cancelled, then a fresh transfer).
-/
import S3V.Props.C10
import S3V.Props.C12
import S3V.Props.C04

namespace S3V.C18
open S3V.Exec

structure Stage where
  e      : Exec
  shut   : Bool := false
  joined : Bool := false

inductive SLabel
  | ev (l : Label)
  | shutdown
  | join
  deriving Repr, DecidableEq

def sstep (s : Stage) : SLabel → Option Stage
  | .ev (.submit j d) =>
    if s.shut then none   -- "cannot schedule new futures after shutdown"
    else (step s.e (.submit j d)).map fun e' => { s with e := e' }
  | .ev l => if s.joined then none else (step s.e l).map fun e' => { s with e := e' }
  | .shutdown => some { s with shut := true }
  | .join => if s.shut ∧ s.e.queue = [] ∧ s.e.running = [] then some { s with joined := true } else none

def srun (s : Stage) : List SLabel → Option Stage
  | [] => some s
  | l :: ls => match sstep s l with
    | none => none
    | some s' => srun s' ls

structure SInv (s : Stage) : Prop where
  j : s.joined = true → s.shut = true ∧ s.e.queue = [] ∧ s.e.running = []

theorem sinv_step (s s' : Stage) (l : SLabel) (h : SInv s) (hs : sstep s l = some s') : SInv s' := by
  obtain ⟨hj⟩ := h
  cases l with
  | shutdown => simp only [sstep, Option.some.injEq] at hs; subst hs; exact ⟨fun h => by have := hj h; simp_all⟩
  | join =>
    simp only [sstep] at hs
    split at hs
    · rename_i hg; cases hs; exact ⟨fun _ => hg⟩
    · cases hs
  | ev l =>
    cases l with
    | submit j d =>
      simp only [sstep] at hs
      split at hs
      · cases hs
      · rename_i hns
        cases he : step s.e (.submit j d) with
        | none => simp [he] at hs
        | some e' =>
          simp only [he, Option.map_some, Option.some.injEq] at hs
          subst hs
          constructor
          intro hjj
          have := (hj hjj).1
          simp_all
    | pick j =>
      simp only [sstep] at hs
      split at hs
      · cases hs
      · rename_i hnj
        cases he : step s.e (.pick j) with
        | none => simp [he] at hs
        | some e' =>
          simp only [he, Option.map_some, Option.some.injEq] at hs
          subst hs
          exact ⟨fun hjj => absurd hjj hnj⟩
    | finish j =>
      simp only [sstep] at hs
      split at hs
      · cases hs
      · rename_i hnj
        cases he : step s.e (.finish j) with
        | none => simp [he] at hs
        | some e' =>
          simp only [he, Option.map_some, Option.some.injEq] at hs
          subst hs
          exact ⟨fun hjj => absurd hjj hnj⟩

theorem sinv_run (s s' : Stage) (ls : List SLabel) (h : SInv s) (hr : srun s ls = some s') : SInv s' := by
  induction ls generalizing s with
  | nil => simp only [srun, Option.some.injEq] at hr; exact hr ▸ h
  | cons l ls ih =>
    simp only [srun] at hr
    cases hs : sstep s l with
    | none => simp [hs] at hr
    | some s1 => simp only [hs] at hr; exact ih s1 (sinv_step s s1 l h hs) hr

/-- **Shutdown is a barrier for a stage.** In every run, once `join` has returned: every task
ever submitted to the stage has ended, and no event of the stage — no request, write, callback,
no submission — can happen any more. -/
theorem barrier (cap workers : Nat) (ls : List SLabel) (s : Stage)
    (hr : srun { e := Exec.init cap workers } ls = some s) (hj : s.joined = true) :
    s.e.queue = [] ∧ s.e.running = [] ∧ ∀ l, sstep s (.ev l) = none := by
  have inv := sinv_run _ s ls ⟨by simp⟩ hr
  obtain ⟨h1, h2, h3⟩ := inv.j hj
  refine ⟨h2, h3, ?_⟩
  intro l
  cases l with
  | submit j d => simp [sstep, h1]
  | pick j => simp [sstep, hj]
  | finish j => simp [sstep, hj]

/-- `join` waits: it is not enabled while a task is queued or running — however many transfers
failed (a failed transfer's tasks still run to their end: they skip their main). -/
theorem join_waits (s : Stage) (h : s.e.queue ≠ [] ∨ s.e.running ≠ []) : sstep s .join = none := by
  simp only [sstep]
  split
  · rename_i hg
    rcases h with h | h
    · exact absurd hg.2.1 h
    · exact absurd hg.2.2 h
  · rfl

/-- The executors are joined in the order submission, request, io — so a stage is only joined when
nothing upstream can submit to it any more (wiring fact, from the source). -/
theorem shutdown_order : S3V.Gen.shutdownOrder = ["_submission_executor", "_request_executor", "_io_executor"] := by
  decide +kernel

/-- **Permits are conserved** — the only state transfers share. After any mix of finished
transfers every stage semaphore and the sliding-window semaphore are back at full capacity, so a
new transfer finds the manager as a fresh one would. -/
theorem reusable (cap workers : Nat) (ls : List Label) (e : Exec)
    (hr : run (Exec.init cap workers) ls = some e) (hq : e.queue = []) (hrun : e.running = []) :
    e.free = e.cap :=
  S3V.C04.stage_quiescent_full cap workers ls e hr hq hrun

theorem reusable_window (cap : Nat) (ops : List S3V.Sema.Op)
    (h : ∀ t ts, S3V.Sema.lookup (S3V.Sema.run (S3V.Sema.Sws.init cap) ops).tags t = some ts → ts.lowest = ts.next) :
    (S3V.Sema.run (S3V.Sema.Sws.init cap) ops).count = cap :=
  S3V.C12.all_released_full cap ops h

/-! ### non-vacuity -/
example : (srun { e := Exec.init 1 1 } [.ev (.submit 0 []), .shutdown, .ev (.pick 0), .ev (.finish 0), .join]).map
    (fun s => (s.joined, s.e.ended)) = some (true, [0]) := by decide
example : srun { e := Exec.init 1 1 } [.ev (.submit 0 []), .shutdown, .join] = none := by decide

end S3V.C18
