/-
C16 — streaming destinations are written strictly in order, each byte once.
Quantifier: every delivery history consistent with one object (any chunking, any order, any
re-delivery, any overlap) — a superset of what the download loop can produce; unbounded length.
-/
import S3V.Lemmas.Defer

namespace S3V.C16
open S3V.Defer
variable {α : Type}

/-- queue invariant: sorted, every queued chunk carries object bytes and lies strictly above
`next` (nothing writable is ever withheld) -/
def QInv (obj : List α) (q : DQ α) : Prop :=
  Sorted q.queue ∧ ∀ e ∈ q.queue, Cons obj e ∧ q.next < e.off

/-- position `p` is accounted for: already written, or held in the queue -/
def Acc (q : DQ α) (p : Nat) : Prop := p < q.next ∨ ∃ e ∈ q.queue, covers e p

theorem init_inv (obj : List α) : QInv obj (DQ.init : DQ α) := by
  simp [QInv, DQ.init, Sorted]

theorem covered_spec (q : List (Entry α)) (off len : Nat) (h : covered q off len = true) :
    ∃ x ∈ q, x.off = off ∧ len ≤ x.data.length := by
  unfold covered at h
  simp only [List.any_eq_true, Bool.and_eq_true, beq_iff_eq, decide_eq_true_eq] at h
  exact h

/-- One `request_writes` call. -/
theorem requestWrites_spec (obj : List α) (q : DQ α) (off : Nat) (d : List α)
    (hq : QInv obj q) (hc : Cons obj { off := off, data := d }) :
    QInv obj (requestWrites q off d).1 ∧
    Tiles obj q.next (requestWrites q off d).2 (requestWrites q off d).1.next ∧
    (∀ p, Acc q p → Acc (requestWrites q off d).1 p) ∧
    (∀ p, covers { off := off, data := d } p → Acc (requestWrites q off d).1 p) := by
  unfold requestWrites
  by_cases h1 : off < q.next ∧ d.length ≤ q.next - off
  · rw [if_pos h1]
    refine ⟨hq, by simp [Tiles], fun p hp => hp, ?_⟩
    intro p hp
    unfold covers at hp
    simp only at hp
    left; show p < q.next; omega
  · rw [if_neg h1]
    -- the trimmed chunk
    have htrim : Cons obj { off := if off < q.next then q.next else off,
                            data := if off < q.next then d.drop (q.next - off) else d } ∧
        (∀ p, covers { off := off, data := d } p → p < q.next ∨
          covers { off := if off < q.next then q.next else off,
                   data := if off < q.next then d.drop (q.next - off) else d } p) := by
      by_cases h2 : off < q.next
      · simp only [h2, if_true]
        have hk : q.next - off ≤ d.length := by omega
        have := Cons_drop obj { off := off, data := d } (q.next - off) hc hk
        simp only at this
        have e : off + (q.next - off) = q.next := by omega
        rw [e] at this
        refine ⟨this, ?_⟩
        intro p hp
        unfold covers at hp ⊢
        simp only [List.length_drop] at hp ⊢
        omega
      · simp only [h2, if_false]
        exact ⟨hc, fun p hp => Or.inr hp⟩
    obtain ⟨hct, hcov⟩ := htrim
    simp only
    by_cases h3 : covered q.queue (if off < q.next then q.next else off)
        (if off < q.next then d.drop (q.next - off) else d).length = true
    · rw [if_pos h3]
      obtain ⟨x, hx, hxo, hxl⟩ := covered_spec _ _ _ h3
      refine ⟨hq, by simp [Tiles], fun p hp => hp, ?_⟩
      intro p hp
      rcases hcov p hp with h | h
      · left; exact h
      · right
        refine ⟨x, hx, ?_⟩
        unfold covers at h ⊢
        simp only at h
        omega
    · rw [if_neg h3]
      have hs := sorted_insertSorted
        { off := if off < q.next then q.next else off,
          data := if off < q.next then d.drop (q.next - off) else d } q.queue hq.1
      have hcall : ∀ e ∈ insertSorted
          { off := if off < q.next then q.next else off,
            data := if off < q.next then d.drop (q.next - off) else d } q.queue, Cons obj e := by
        intro e he
        rw [mem_insertSorted] at he
        rcases he with rfl | he
        · exact hct
        · exact (hq.2 e he).1
      obtain ⟨p1, p2, p3, p4, p5⟩ := popReady_spec obj q.next _ hs hcall
      refine ⟨⟨p4, ?_⟩, p2, ?_, ?_⟩
      · intro e he
        have := p3 e he
        exact ⟨hcall e this.1, this.2⟩
      · intro p hp
        rcases hp with h | ⟨e, he, hcv⟩
        · left; simp only; omega
        · exact p5 e ((mem_insertSorted _ _ _).mpr (Or.inr he)) p hcv
      · intro p hp
        rcases hcov p hp with h | h
        · left; simp only; omega
        · exact p5 _ ((mem_insertSorted _ _ _).mpr (Or.inl rfl)) p h

/-- A whole delivery history, from any state satisfying the invariant. -/
theorem run_spec (obj : List α) (q : DQ α) (h : List (Nat × List α))
    (hq : QInv obj q) (hh : ∀ x ∈ h, Cons obj { off := x.1, data := x.2 }) :
    QInv obj (runHistory q h).1 ∧
    Tiles obj q.next (runHistory q h).2 (runHistory q h).1.next ∧
    (∀ p, Acc q p → Acc (runHistory q h).1 p) ∧
    (∀ x ∈ h, ∀ p, covers { off := x.1, data := x.2 } p → Acc (runHistory q h).1 p) := by
  induction h generalizing q with
  | nil => exact ⟨hq, by simp [runHistory, Tiles], fun p hp => hp, by simp⟩
  | cons x rest ih =>
    obtain ⟨off, d⟩ := x
    obtain ⟨r1, r2, r3, r4⟩ := requestWrites_spec obj q off d hq (hh (off, d) (by simp))
    obtain ⟨i1, i2, i3, i4⟩ := ih (requestWrites q off d).1 r1 (fun y hy => hh y (by simp [hy]))
    simp only [runHistory]
    refine ⟨i1, Tiles_append obj _ _ _ _ _ r2 i2, fun p hp => i3 p (r3 p hp), ?_⟩
    intro y hy p hp
    simp only [List.mem_cons] at hy
    rcases hy with rfl | hy
    · exact i3 p (r4 p hp)
    · exact i4 y hy p hp

/-! ## The property theorems -/

/-- **In order, each byte once.** For every delivery history consistent with the object, the
writes issued are consecutive from offset 0 (each starts where the previous one ended), each
carries exactly the object's bytes at its offset, and their concatenation is the object's
prefix of length `next` — no gap, no overlap, no reordering. -/
theorem in_order_once (obj : List α) (h : List (Nat × List α))
    (hh : ∀ x ∈ h, Cons obj { off := x.1, data := x.2 }) :
    Tiles obj 0 (runHistory DQ.init h).2 (runHistory DQ.init h).1.next ∧
    ((runHistory DQ.init h).2.map (·.data)).flatten = obj.take (runHistory DQ.init h).1.next := by
  have := run_spec obj DQ.init h (init_inv obj) hh
  refine ⟨this.2.1, ?_⟩
  have hf := Tiles_flatten obj 0 _ _ this.2.1
  simpa [DQ.init] using hf

/-- Offsets are strictly increasing over the non-empty writes: every write starts at or after
the end of every earlier write. -/
theorem offsets_increasing (obj : List α) (a b : Nat) (ws : List (Entry α)) (h : Tiles obj a ws b) :
    ws.Pairwise (fun x y => x.off + x.data.length ≤ y.off) ∧
    ∀ w ∈ ws, a ≤ w.off ∧ w.off + w.data.length ≤ b := by
  induction ws generalizing a with
  | nil => simp
  | cons w ws ih =>
    simp only [Tiles] at h
    obtain ⟨h1, _, h3⟩ := h
    obtain ⟨i1, i2⟩ := ih _ h3
    have hle := Tiles_le obj _ _ _ h3
    refine ⟨List.pairwise_cons.mpr ⟨?_, i1⟩, ?_⟩
    · intro y hy
      have := (i2 y hy).1
      omega
    · intro y hy
      simp only [List.mem_cons] at hy
      rcases hy with rfl | hy
      · omega
      · have := i2 y hy; omega

/-- **No loss.** Every delivered byte position is either written already or still held in the
queue — whatever the arrival order, chunking or re-delivery pattern. -/
theorem no_loss (obj : List α) (h : List (Nat × List α))
    (hh : ∀ x ∈ h, Cons obj { off := x.1, data := x.2 }) (x : Nat × List α) (hx : x ∈ h) (p : Nat)
    (hp : x.1 ≤ p ∧ p < x.1 + x.2.length) : Acc (runHistory DQ.init h).1 p :=
  (run_spec obj DQ.init h (init_inv obj) hh).2.2.2 x hx p hp

/-- **Prompt release.** After every call, everything still queued lies strictly above `next`:
data is withheld only while something before it is missing. -/
theorem prompt (obj : List α) (h : List (Nat × List α))
    (hh : ∀ x ∈ h, Cons obj { off := x.1, data := x.2 }) :
    ∀ e ∈ (runHistory DQ.init h).1.queue, (runHistory DQ.init h).1.next < e.off :=
  fun e he => ((run_spec obj DQ.init h (init_inv obj) hh).1.2 e he).2

/-- **Completeness.** If every position of `[0,N)` was delivered at least once, all of it has
been written (`next ≥ N`). -/
theorem complete (obj : List α) (h : List (Nat × List α))
    (hh : ∀ x ∈ h, Cons obj { off := x.1, data := x.2 }) (N : Nat)
    (hall : ∀ p, p < N → ∃ x ∈ h, x.1 ≤ p ∧ p < x.1 + x.2.length) :
    N ≤ (runHistory DQ.init h).1.next := by
  apply Nat.le_of_not_lt
  intro hlt
  obtain ⟨x, hx, hp⟩ := hall _ hlt
  rcases no_loss obj h hh x hx _ hp with h1 | ⟨e, he, hc⟩
  · omega
  · have := prompt obj h hh e he
    unfold covers at hc
    omega

/-! ### D2's history on the model (non-vacuity + regression witness) -/

/-- `request_writes(0,'abc'); (0,'abcde'); (5,'fgh')` — the re-chunked retry that lost bytes 3–4. -/
example :
    (runHistory (DQ.init : DQ Nat) [(0, [0,1,2]), (0, [0,1,2,3,4]), (5, [5,6,7])]).2
      = [{ off := 0, data := [0,1,2] }, { off := 3, data := [3,4] }, { off := 5, data := [5,6,7] }] := by
  decide

example : Cons [0,1,2,3,4,5,6,7] ({ off := 5, data := [5,6,7] } : Entry Nat) := by
  simp [Cons]

/-- withheld out-of-order data overlapping a later, differently chunked retry -/
example :
    (runHistory (DQ.init : DQ Nat) [(3, [3]), (4, [4,5]), (3, [3,4]), (0, [0,1,2])]).2
      = [{ off := 0, data := [0,1,2] }, { off := 3, data := [3] }, { off := 4, data := [4] },
         { off := 5, data := [5] }] := by
  decide

end S3V.C16
