/-
C10 — configured concurrency and queue limits are never exceeded (one stage).
Quantifiers: every capacity and worker count, every run (sequence of submit/pick/finish events by
any number of submitters and workers), unbounded.
The wiring "which configuration value is the capacity / worker count of which stage, and only
workers of the request stage issue transfer requests" is read from the source by the translator
(S3V.Gen.Wiring) and checked end to end by the explorer.
-/
import S3V.Model.Exec
import S3V.Model.Wiring

namespace S3V.C10
open S3V.Exec

structure Inv (e : Exec) : Prop where
  permits : e.free + e.queue.length + e.running.length = e.cap
  threads : e.running.length ≤ e.workers

theorem init_inv (cap workers : Nat) : Inv (Exec.init cap workers) := by
  constructor <;> simp [Exec.init]

theorem step_inv (e e' : Exec) (l : Label) (h : Inv e) (hs : step e l = some e') : Inv e' := by
  obtain ⟨hp, ht⟩ := h
  cases l with
  | submit j d =>
    simp only [step] at hs
    split at hs
    · cases hs
    · rename_i hg
      cases hs
      constructor
      · simp only [List.length_append, List.length_cons, List.length_nil]; omega
      · exact ht
  | pick j =>
    simp only [step] at hs
    cases hq : e.queue with
    | nil => simp [hq] at hs
    | cons q rest =>
      simp only [hq] at hs
      split at hs
      · rename_i hg
        cases hs
        rw [hq] at hp
        constructor
        · simp only [List.length_append, List.length_cons, List.length_nil] at hp ⊢; omega
        · simp only [List.length_append, List.length_cons, List.length_nil]; omega
      · cases hs
  | finish j =>
    simp only [step] at hs
    split at hs
    · rename_i hg
      cases hs
      have hm : j ∈ e.running := by simpa using hg.1
      have hl := List.length_erase_of_mem hm
      have hpos : 0 < e.running.length := List.length_pos_of_mem hm
      constructor
      · simp only; omega
      · simp only; omega
    · cases hs

theorem run_inv (e e' : Exec) (ls : List Label) (h : Inv e) (hr : run e ls = some e') : Inv e' := by
  induction ls generalizing e with
  | nil => simp only [run, Option.some.injEq] at hr; exact hr ▸ h
  | cons l ls ih =>
    simp only [run] at hr
    cases hs : step e l with
    | none => simp [hs] at hr
    | some e1 => simp only [hs] at hr; exact ih e1 (step_inv e e1 l h hs) hr

/-- **Never more running tasks than threads** — hence never more S3 transfer requests in flight
than `max_request_concurrency` (size-discovery requests: `max_submission_concurrency`; one writer
per destination: the io stage has one thread), in every run. -/
theorem inflight_le (cap workers : Nat) (ls : List Label) (e : Exec)
    (hr : run (Exec.init cap workers) ls = some e) : e.running.length ≤ workers := by
  have := (run_inv _ e ls (init_inv cap workers) hr).threads
  have hw : e.workers = workers := by
    have : ∀ (e0 e1 : Exec) (ls : List Label), run e0 ls = some e1 → e1.workers = e0.workers ∧ e1.cap = e0.cap := by
      intro e0 e1 ls
      induction ls generalizing e0 with
      | nil => intro h; simp only [run, Option.some.injEq] at h; subst h; exact ⟨rfl, rfl⟩
      | cons l ls ih =>
        intro h
        simp only [run] at h
        cases hs : step e0 l with
        | none => simp [hs] at h
        | some e2 =>
          simp only [hs] at h
          have h2 := ih e2 h
          have : e2.workers = e0.workers ∧ e2.cap = e0.cap := by
            cases l with
            | submit j d => simp only [step] at hs; split at hs <;> cases hs; exact ⟨rfl, rfl⟩
            | pick j =>
              simp only [step] at hs
              cases hq : e0.queue with
              | nil => simp [hq] at hs
              | cons q rest => simp only [hq] at hs; split at hs <;> cases hs; exact ⟨rfl, rfl⟩
            | finish j => simp only [step] at hs; split at hs <;> cases hs; exact ⟨rfl, rfl⟩
          exact ⟨by rw [h2.1, this.1], by rw [h2.2, this.2]⟩
    exact (this _ e ls hr).1
  omega

/-- **Queued-or-running never exceeds the permits** (`max_*_queue_size`, plus the in-memory chunk
limits for the tasks governed by them). -/
theorem queued_le (cap workers : Nat) (ls : List Label) (e : Exec)
    (hr : run (Exec.init cap workers) ls = some e) :
    e.queue.length + e.running.length ≤ e.cap ∧ e.free + e.queue.length + e.running.length = e.cap := by
  have := (run_inv _ e ls (init_inv cap workers) hr).permits
  omega

/-- **A submitter blocks while the stage is full**: with no free permit the submit label is not
enabled — the model has no "error" or "overrun" outcome for it. -/
theorem submit_blocks (e : Exec) (j : Nat) (d : List Nat) (h : e.free = 0) : step e (.submit j d) = none := by
  simp [step, h]

/-- … and is enabled as soon as a permit is free (for a fresh task). -/
theorem submit_enabled (e : Exec) (j : Nat) (d : List Nat) (h : 0 < e.free) (hk : known e j = false) :
    (step e (.submit j d)).isSome = true := by
  have : ¬ (e.free = 0 ∨ known e j = true) := by simp [hk]; omega
  simp [step, this]

/-- **FIFO**: a task is picked only when it is at the head of the queue, so tasks of one stage
start in the order they were queued (writes to one destination are performed by the single io
thread in queue order). -/
theorem fifo (e e' : Exec) (j : Nat) (h : step e (.pick j) = some e') :
    e.queue.head? = some j ∧ e'.queue = e.queue.tail := by
  simp only [step] at h
  cases hq : e.queue with
  | nil => simp [hq] at h
  | cons q rest =>
    simp only [hq] at h
    split at h
    · rename_i hg; cases h; simp [hg.1]
    · cases h

/-- The wiring facts read from `TransferManager.__init__` on this run: which `TransferConfig`
attribute is the capacity and the thread count of each stage, the io stage has one thread, and
the executors are shut down in the order submission, request, io. -/
theorem wiring_ok : S3V.Gen.wiringOK = true := by decide +kernel

/-! ### non-vacuity -/
example : run (Exec.init 2 1) [.submit 0 [], .submit 1 [0], .pick 0, .finish 0, .pick 1, .finish 1]
    = some { cap := 2, workers := 1, free := 2, queue := [], running := [], ended := [0, 1],
             deps := [(1, [0]), (0, [])] } := by decide
example : step (Exec.init 1 1) (.submit 0 []) ≠ none ∧
    (do let e ← step (Exec.init 1 1) (.submit 0 []); step e (.submit 1 [])) = none := by decide

end S3V.C10
