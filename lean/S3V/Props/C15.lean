/-
C15 — extra arguments reach exactly the S3 operations that accept them.
The tables are finite and complete (regenerated from the source and from the installed botocore
model on every run), so `decide` over them is a proof, not a sample.  General statements about
arbitrary argument dictionaries are proved by induction/`List` lemmas.
-/
import S3V.Model.Args

namespace S3V.C15
open S3V.Args S3V.Gen

/-- For one allowed name `a` passed alone: in every call of the mode, `a` is forwarded iff the
operation's input shape has a member `a` — except for the cells `exc` lists. -/
def cellsOK (allowed : List String) (calls : Dict → List Call) (exc : String → Op → Bool) : Bool :=
  allowed.all fun a => (calls [(a, "v")]).all fun c =>
    ((keys c.args).contains a == (shape c.op).contains a) || exc a c.op

/-- No call of the mode carries a name its operation does not know. -/
def knownOK (allowed : List String) (calls : Dict → List Call) : Bool :=
  allowed.all fun a => (calls [(a, "v")]).all fun c => (keys c.args).all (shape c.op).contains

def noExc : String → Op → Bool := fun _ _ => false

/-- stated exception: a user-supplied full-object checksum is never sent to individual parts -/
def fullObjectExc : String → Op → Bool :=
  fun a op => fullObjectChecksumArgs.contains a && op == .uploadPart

/-- stated exception: the copy's HeadObject is issued on the *source*; the destination's SSE-C
arguments are not for it (the source's arrive through the mapping) -/
def copyHeadExc : String → Op → Bool :=
  fun a op => op == .head && ["SSECustomerAlgorithm", "SSECustomerKey", "SSECustomerKeyMD5"].contains a

/-! ### TransferManager: forwarded ⇔ accepted, per method and mode -/

theorem routing_upload_single : cellsOK allowedUpload uploadSingle noExc = true := by decide +kernel
theorem routing_upload_multipart : cellsOK allowedUpload uploadMultipart fullObjectExc = true := by
  decide +kernel
theorem routing_download_head : cellsOK allowedDownload (downloadCalls · false) noExc = true := by
  decide +kernel
theorem routing_download_known_size : cellsOK allowedDownload (downloadCalls · true) noExc = true := by
  decide +kernel
theorem routing_copy_single : cellsOK allowedCopy (copySingle · false) copyHeadExc = true := by
  decide +kernel
theorem routing_copy_multipart : cellsOK allowedCopy (copyMultipart · false) copyHeadExc = true := by
  decide +kernel
theorem routing_delete : cellsOK allowedDelete deleteCalls noExc = true := by decide +kernel

/-- copy-source conditions and keys are mapped to their HeadObject equivalents: every mapped
name is a copy argument, and its image is a HeadObject parameter. -/
theorem copy_head_mapping_ok :
    copyHeadMapping.all (fun p => allowedCopy.contains p.1 && shapeHeadObject.contains p.2) = true := by
  decide +kernel

/-- every `CopySource…` condition/key has a HeadObject equivalent in the mapping -/
theorem copy_source_args_all_mapped :
    (allowedCopy.filter (fun a => a.startsWith "CopySource")).all
      (fun a => (copyHeadMapping.lookup a).isSome) = true := by
  decide +kernel

/-! ### no forwarded argument is unknown to the operation it is sent to -/

theorem known_upload_single : knownOK allowedUpload uploadSingle = true := by decide +kernel
theorem known_upload_multipart : knownOK allowedUpload uploadMultipart = true := by decide +kernel
theorem known_download : knownOK allowedDownload (downloadCalls · false) = true := by decide +kernel
theorem known_copy_single : knownOK allowedCopy (copySingle · false) = true := by decide +kernel
theorem known_copy_multipart : knownOK allowedCopy (copyMultipart · false) = true := by decide +kernel
theorem known_delete : knownOK allowedDelete deleteCalls = true := by decide +kernel
theorem known_processpool : knownOK processpoolAllowedDownload (processpoolDownload · false) = true := by
  decide +kernel

/-! ### legacy S3Transfer and the process pool -/

theorem routing_legacy_upload_single : cellsOK legacyAllowedUpload legacyUploadSingle noExc = true := by
  decide +kernel
theorem routing_legacy_download : cellsOK legacyAllowedDownload legacyDownload noExc = true := by
  decide +kernel
theorem routing_processpool : cellsOK processpoolAllowedDownload (processpoolDownload · false) noExc = true := by
  decide +kernel

/-- D10 (recorded finding): the legacy uploader sends nothing to CompleteMultipartUpload although
the operation accepts RequestPayer and the SSE-C arguments.  The full statement
(`cellsOK … noExc`) is false of the code; what holds is the statement without those cells. -/
def legacyCompleteExc : String → Op → Bool := fun _ op => op == .complete

theorem routing_legacy_upload_multipart_partial :
    cellsOK legacyAllowedUpload legacyUploadMultipart legacyCompleteExc = true := by decide +kernel

/-- the counter-example kept beside the partial theorem -/
theorem legacy_complete_drops_request_payer :
    cellsOK legacyAllowedUpload legacyUploadMultipart noExc = false := by decide +kernel

theorem known_legacy_upload : knownOK legacyAllowedUpload legacyUploadSingle = true ∧
    knownOK legacyAllowedUpload legacyUploadMultipart = true ∧
    knownOK legacyAllowedDownload legacyDownload = true := by decide +kernel

/-! ### general statements (any dictionary) -/

/-- `get_filtered_dict` returns exactly the pairs whose key passes the lists, values untouched,
order preserved. -/
theorem filtered_exact (d : Dict) (white block : List String) (p : String × String) :
    p ∈ filteredDict d white block ↔
      p ∈ d ∧ ((white ≠ [] ∧ p.1 ∈ white) ∨ (block ≠ [] ∧ p.1 ∉ block)) := by
  unfold filteredDict
  simp only [List.mem_filter, Bool.or_eq_true, Bool.and_eq_true, Bool.not_eq_true',
    List.isEmpty_eq_false_iff, List.contains_eq_mem, decide_eq_true_eq, decide_eq_false_iff_not, ne_eq]

theorem filtered_sublist (d : Dict) (white block : List String) :
    (filteredDict d white block).Sublist d := List.filter_sublist

/-- Arguments outside the allow-list are rejected before any request: validation fails as soon
as one key is unknown. -/
theorem rejected_before_request (d : Dict) (allowed : List String) (k : String)
    (hk : k ∈ keys d) (hn : k ∉ allowed) : validate d allowed = false := by
  unfold validate
  rw [Bool.eq_false_iff]
  intro h
  rw [List.all_eq_true] at h
  have := h k hk
  simp only [List.contains_eq_mem, decide_eq_true_eq] at this
  exact hn this

/-- A user-supplied full-object checksum makes a multipart upload add `ChecksumType=FULL_OBJECT`
and the matching algorithm, sends the checksum to CompleteMultipartUpload only, never to
UploadPart and never to CreateMultipartUpload — for each of the five checksums. -/
theorem full_object_checksum_routing :
    fullObjectChecksumArgs.all (fun c =>
      match uploadMultipart [(c, "v")] with
      | [cr, up, co] =>
        cr.args.contains ("ChecksumType", "FULL_OBJECT") &&
        cr.args.contains ("ChecksumAlgorithm", (c.drop 8).toString) &&
        !(keys cr.args).contains c &&
        !(keys up.args).contains c && (keys up.args).contains "ChecksumAlgorithm" &&
        co.args.contains (c, "v") && co.args.contains ("ChecksumType", "FULL_OBJECT")
      | _ => false) = true := by
  decide +kernel

/-- … and for a single-request upload it goes to PutObject, without a ChecksumType. -/
theorem full_object_checksum_single :
    fullObjectChecksumArgs.all (fun c =>
      match uploadSingle [(c, "v"), ("ChecksumType", "FULL_OBJECT")] with
      | [put] => put.args.contains (c, "v") && !(keys put.args).contains "ChecksumType"
      | _ => false) = true := by
  decide +kernel

/-- CRC32 is the default algorithm when the client asks for checksums, unless the user chose an
algorithm or supplied a full-object checksum. -/
theorem default_checksum (d : Dict) :
    (¬ (keys d).any fullObjectChecksumArgs.contains = true → "ChecksumAlgorithm" ∉ keys d →
        setDefaultChecksum d = d ++ [("ChecksumAlgorithm", "CRC32")]) ∧
    ((keys d).any fullObjectChecksumArgs.contains = true ∨ "ChecksumAlgorithm" ∈ keys d →
        setDefaultChecksum d = d) := by
  unfold setDefaultChecksum
  constructor
  · intro h1 h2
    have : (keys d).contains "ChecksumAlgorithm" = false := by
      simp only [List.contains_eq_mem, decide_eq_false_iff_not]; exact h2
    rw [if_neg h1, this]
    simp
  · rintro (h | h)
    · simp [h]
    · have : (keys d).contains "ChecksumAlgorithm" = true := by
        simp only [List.contains_eq_mem, decide_eq_true_eq]; exact h
      split <;> simp [this]

/-! ### non-vacuity -/
example : allowedUpload.length = 34 ∧ shapePutObject.contains "ACL" = true := by decide +kernel
example : (uploadMultipart [("RequestPayer", "requester")]).map (fun c => keys c.args)
    = [["RequestPayer"], ["RequestPayer"], ["RequestPayer"]] := by decide +kernel

end S3V.C15
