/-
C08 — subscriber callbacks: exactly once, in order, after the work.
Theorems over every run of the transfer model (all interleavings, including two threads
announcing done at once: the cancelling user racing the submission thread).
`cbDone` is the run of the done callbacks (every subscriber's on_done and the manager's
bookkeeping callback, in registration order, under the callbacks lock); `onQueued` is the run of
the on_queued callbacks.  That one raising callback does not stop the others is a property of
`_run_callbacks` judged by the explorer (it is a `try/except` around each call).
-/
import S3V.Lemmas.Xfer3

namespace S3V.C08
open S3V.Xfer
open S3V.Coord (Status)

/-- **on_done runs at most once**, whoever announces and however often. -/
theorem on_done_at_most_once (cfg : Cfg) (ls : List Label) (x : X) (hr : run cfg {} ls = some x) :
    x.doneCbRuns ≤ 1 :=
  (reachable_inv cfg ls x hr).g1.cb2

/-- … and once it has run, no announcer can run it again. -/
theorem on_done_not_again (cfg : Cfg) (ls : List Label) (x : X) (hr : run cfg {} ls = some x)
    (h : x.doneCbRuns = 1) (who : Nat) : step cfg x (.cbDone who) = none := by
  have inv := reachable_inv cfg ls x hr
  have : x.cbsPending = false := by
    by_cases hp : x.cbsPending = true
    · have := inv.g1.cb1 hp; omega
    · simpa using hp
  simp [step, this]

/-- **on_done runs only after the work**: whenever the done callbacks run, the outcome is final
(`done()` is true), `result()` no longer blocks (the done event is set), no request of the
transfer is in flight, and no cleanup (abort) is in flight. -/
theorem on_done_after (cfg : Cfg) (ls : List Label) (x x' : X) (who : Nat)
    (hr : run cfg {} ls = some x) (hs : step cfg x (.cbDone who) = some x') :
    x.done = true ∧ x.event = true ∧ (∀ j, x.ph j ≠ .req) ∧ x.abortOpen = false := by
  have inv := reachable_inv cfg ls x hr
  simp only [step] at hs
  split at hs
  · rename_i hg
    obtain ⟨h1, h2, h3⟩ := hg
    have ha : x.announced who = true := inv.g3.pa who (by rw [h1]; simp)
    refine ⟨inv.g3.ad who ha, inv.g3.pe2 who h1, (announcer_blocks cfg x inv.g2 who ha).1, ?_⟩
    by_cases ho : x.abortOpen = true
    · exfalso
      have hp := (inv.g1.ab3 ho).1
      have hb := inv.g3.bo ho
      have hns := inv.g4.ns hb
      rcases inv.g4.cl who ha (by rw [h1]; simp) (by rw [h1]; simp) with h | h
      · exact hns h
      · rw [hp] at h; cases h
    · simpa using ho
  · cases hs

/-- After on_done has begun, no request — hence no progress report from a request body or a
download stream — can start any more. -/
theorem nothing_after_on_done (cfg : Cfg) (ls : List Label) (x : X) (hr : run cfg {} ls = some x)
    (h : x.doneCbRuns = 1) (j : Nat) : step cfg x (.reqBegin j) = none := by
  have inv := reachable_inv cfg ls x hr
  -- on_done ran, so somebody announced; use the event as the witness
  have hev : ∃ who, x.announced who = true := announced_of_cb x cfg inv h
  obtain ⟨who, hw⟩ := hev
  have hblk := (announcer_blocks cfg x inv.g2 who hw).2 j
  simp only [step]
  split
  · rename_i hg
    have := hblk hg.1
    simp_all
  · rfl

/-- **on_queued runs before any request**: once any request of the transfer was issued the
on_queued label is never enabled again, and it is never enabled for a transfer that was
cancelled before it started. -/
theorem on_queued_before_requests (cfg : Cfg) (ls : List Label) (x : X) (hr : run cfg {} ls = some x)
    (j : Nat) (h : x.requested j = true) : step cfg x .onQueued = none := by
  have inv := reachable_inv cfg ls x hr
  have hk : x.known j = true := inv.g2.st j (inv.g3.rk j h)
  have hsr : x.subRunning = true := subRunning_of_known cfg x inv j hk
  have := (inv.g3.sq hsr).1
  simp [step, this]

theorem on_queued_absent_if_cancelled_unstarted (cfg : Cfg) (ls : List Label) (x : X)
    (hr : run cfg {} ls = some x) (h : x.announced 0 = true) :
    step cfg x .onQueued = none ∧ ∀ j, x.requested j = false := by
  have inv := reachable_inv cfg ls x hr
  have hd := inv.g3.ad 0 h
  refine ⟨?_, ?_⟩
  · simp only [step]
    split
    · rename_i hg
      simp [X.done, hg.2.1, Status.isDone] at hd
    · rfl
  · intro j
    by_cases hq : x.requested j = true
    · have hk : x.known j = true := inv.g2.st j (inv.g3.rk j hq)
      have := (inv.g2.a0 h).1 j
      rw [this] at hk; cases hk
    · simpa using hq

end S3V.C08
