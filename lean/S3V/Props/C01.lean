/-
C01 — upload and copy produce a byte-exact destination object (the M1 part: how a source is cut
into bodies, re-sending a body, copy ranges).  The ordering obligations of the manager
(`complete` once, after all parts, with the parts' own ETags in part-number order) are checked
end to end by the scheduled explorer (harness/explore.py) and modelled in M2.
Quantifiers: every source, start offset, threshold, chunk size; every short-read pattern of a
non-seekable stream; any number of body rewinds.
-/
import S3V.Model.Upload
import S3V.Props.C09
import S3V.Props.C14Base

namespace S3V.C01
open S3V.Upload
variable {α : Type}

/-- first `k` slices concatenate to the first `k*c` bytes -/
theorem slices_prefix (src : List α) (c k : Nat) :
    (slices src c k).flatten = src.take (c * k) := by
  induction k with
  | zero => simp [slices]
  | succ k ih =>
    unfold slices at ih ⊢
    rw [List.range_succ, List.map_append, List.flatten_append, ih]
    simp only [List.map_cons, List.map_nil, List.flatten_cons, List.flatten_nil, List.append_nil]
    have : c * (k + 1) = c * k + c := by rw [Nat.mul_succ]
    rw [this, List.take_add]

/-- **Path and seekable sources**: the bodies of the `n = ⌈len/c⌉` parts, in part-number
order, concatenate to the source (from its start position) with no gap, overlap or reordering. -/
theorem parts_concat (src : List α) (c : Nat) (hc : 0 < c) :
    (slices src c (S3V.Plan.ceilDiv src.length c)).flatten = src := by
  rw [slices_prefix]
  apply List.take_of_length_le
  have := S3V.C14.le_ceilDiv_mul src.length c hc
  rw [Nat.mul_comm]; exact this

/-- every part but the last is exactly `c` long; the last is non-empty -/
theorem parts_sizes (src : List α) (c i : Nat) (hc : 0 < c) (hi : i < S3V.Plan.ceilDiv src.length c) :
    ((src.drop (c * i)).take c).length = min (src.length - c * i) c ∧ 0 < min (src.length - c * i) c := by
  refine ⟨by simp [List.length_take, List.length_drop]; omega, ?_⟩
  obtain ⟨p, hget, _, hst, _, _, hpos⟩ := S3V.C14.upload_parts_consecutive src.length c hc i hi
  have hlen : p.len = min (src.length - c * i) c := by
    have h1 : (S3V.Plan.uploadParts src.length c)[i]? = some { number := i + 1, start := c * i, len := min (src.length - c * i) c } := by
      simp [S3V.Plan.uploadParts, hi]
    rw [h1] at hget
    cases hget; rfl
  omega

/-! ### non-seekable streams with short reads -/

theorem Src.read_spec (s : Src α) (amount : Nat) :
    (s.read amount).1 ++ (s.read amount).2.data = s.data ∧
    (0 < amount → s.data ≠ [] → (s.read amount).1 ≠ []) ∧
    (s.read amount).1.length ≤ amount := by
  unfold Src.read
  cases hs : s.script with
  | nil =>
    simp only
    refine ⟨List.take_append_drop _ _, ?_, by simp [List.length_take]; omega⟩
    intro ha hd
    cases hdd : s.data with
    | nil => exact absurd hdd hd
    | cons x xs =>
      intro h
      have : (List.take amount (x :: xs)).length = 0 := by rw [h]; rfl
      simp [List.length_take] at this; omega
  | cons cap rest =>
    simp only
    refine ⟨List.take_append_drop _ _, ?_, by simp [List.length_take]; omega⟩
    intro ha hd
    cases hdd : s.data with
    | nil => exact absurd hdd hd
    | cons x xs =>
      intro h
      have : (List.take (min amount (max cap 1)) (x :: xs)).length = 0 := by rw [h]; rfl
      simp [List.length_take] at this; omega

/-- `_read_from_fileobj`: whatever the short-read pattern, it returns exactly the first `amount` bytes
of what is left (all of it if there is less) and leaves the rest -/
theorem Src.readFully_spec (fuel : Nat) (s : Src α) (amount : Nat) (hf : amount ≤ fuel) :
    (s.readFully fuel amount).1 = s.data.take amount ∧ (s.readFully fuel amount).2.data = s.data.drop amount := by
  induction fuel generalizing s amount with
  | zero =>
    have : amount = 0 := by omega
    subst this
    simp [Src.readFully]
  | succ fuel ih =>
    unfold Src.readFully
    by_cases ha : amount = 0
    · subst ha; simp
    · rw [if_neg ha]
      obtain ⟨r1, r2, r3⟩ := Src.read_spec s amount
      by_cases hz : (s.read amount).1.length = 0
      · rw [if_pos hz]
        have hnil : (s.read amount).1 = [] := List.eq_nil_of_length_eq_zero hz
        have hd : s.data = [] := by
          by_cases h : s.data = []
          · exact h
          · exact absurd hnil (r2 (by omega) h)
        rw [hnil] at r1
        simp only [List.nil_append] at r1
        simp [hd, r1]
      · rw [if_neg hz]
        have hk : 0 < (s.read amount).1.length := by omega
        obtain ⟨i1, i2⟩ := ih (s.read amount).2 (amount - (s.read amount).1.length) (by omega)
        simp only [i1, i2]
        have hpre : (s.read amount).1 = s.data.take (s.read amount).1.length := by
          have := congrArg (List.take (s.read amount).1.length) r1
          simpa using this
        have hrest : (s.read amount).2.data = s.data.drop (s.read amount).1.length := by
          have := congrArg (List.drop (s.read amount).1.length) r1
          simpa using this
        generalize hk' : (s.read amount).1.length = k at *
        constructor
        · rw [hpre, hrest]
          have h := List.take_add (l := s.data) (i := k) (j := amount - k)
          rw [show k + (amount - k) = amount by omega] at h
          exact h.symm
        · rw [hrest, List.drop_drop]
          congr 1
          omega

/-- one `_read`: what it returns plus what is left is what was there; it returns something
whenever something is left -/
theorem readChunk_spec (m : NS α) (amount : Nat) (ha : 0 < amount) :
    (m.readChunk amount).1 ++ ((m.readChunk amount).2.initial ++ (m.readChunk amount).2.src.data)
      = m.initial ++ m.src.data ∧
    (m.initial ++ m.src.data ≠ [] → (m.readChunk amount).1 ≠ []) := by
  unfold NS.readChunk
  by_cases h0 : m.initial.length = 0
  · rw [if_pos h0]
    have hnil : m.initial = [] := List.eq_nil_of_length_eq_zero h0
    obtain ⟨f1, f2⟩ := Src.readFully_spec amount m.src amount (Nat.le_refl _)
    simp only [hnil, List.nil_append, f1, f2]
    refine ⟨List.take_append_drop _ _, fun h hx => ?_⟩
    have : (List.take amount m.src.data).length = 0 := by rw [hx]; rfl
    rw [List.length_take] at this
    have : m.src.data.length = 0 := by omega
    exact h (List.eq_nil_of_length_eq_zero this)
  · rw [if_neg h0]
    by_cases h1 : amount ≤ m.initial.length
    · rw [if_pos h1]
      simp only
      refine ⟨by rw [← List.append_assoc, List.take_append_drop], ?_⟩
      intro _ h
      have : (List.take amount m.initial).length = 0 := by rw [h]; rfl
      rw [List.length_take] at this; omega
    · rw [if_neg h1]
      obtain ⟨f1, f2⟩ := Src.readFully_spec (amount - m.initial.length) m.src (amount - m.initial.length) (Nat.le_refl _)
      simp only [List.nil_append, f1, f2]
      refine ⟨by rw [List.append_assoc, List.take_append_drop], ?_⟩
      intro _ h
      have : (m.initial ++ List.take (amount - m.initial.length) m.src.data).length = 0 := by rw [h]; rfl
      rw [List.length_append] at this; omega

/-- **Non-seekable source, any short-read pattern**: the part bodies, in the order they are
numbered, concatenate to everything the stream held (after the threshold pre-read kept in
`_initial_data`) — no byte lost, duplicated or reordered — and every part is non-empty. -/
theorem parts_concat_nonseekable (fuel : Nat) (m : NS α) (chunk : Nat) (hc : 0 < chunk)
    (hf : m.initial.length + m.src.data.length < fuel) :
    (NS.parts fuel m chunk).flatten = m.initial ++ m.src.data ∧
    ∀ p ∈ NS.parts fuel m chunk, p ≠ [] := by
  induction fuel generalizing m with
  | zero => omega
  | succ fuel ih =>
    obtain ⟨r1, r2⟩ := readChunk_spec m chunk hc
    unfold NS.parts
    by_cases hz : (m.readChunk chunk).1.length = 0
    · rw [if_pos hz]
      have hnil : (m.readChunk chunk).1 = [] := List.eq_nil_of_length_eq_zero hz
      have : m.initial ++ m.src.data = [] := by
        by_cases h : m.initial ++ m.src.data = []
        · exact h
        · exact absurd hnil (r2 h)
      simp [this]
    · rw [if_neg hz]
      have hlen : (m.readChunk chunk).2.initial.length + (m.readChunk chunk).2.src.data.length < fuel := by
        have := congrArg List.length r1
        simp only [List.length_append] at this
        omega
      obtain ⟨i1, i2⟩ := ih (m.readChunk chunk).2 hlen
      refine ⟨by simp only [List.flatten_cons]; rw [i1, r1], ?_⟩
      intro p hp
      simp only [List.mem_cons] at hp
      rcases hp with rfl | hp
      · intro h; rw [h] at hz; simp at hz
      · exact i2 p hp

/-- The whole non-seekable upload, either way the threshold pre-read goes: single request body
or the concatenation of the parts equals the stream's content. -/
theorem nonseekable_exact (s : Src α) (threshold chunk : Nat) (hc : 0 < chunk) :
    (NS.choose s threshold).2.putBody = s.data ∧
    (NS.parts (s.data.length + 1) (NS.choose s threshold).2 chunk).flatten = s.data := by
  obtain ⟨f1, f2⟩ := Src.readFully_spec threshold s threshold (Nat.le_refl _)
  have r1 : (s.readFully threshold threshold).1 ++ (s.readFully threshold threshold).2.data = s.data := by
    rw [f1, f2]; exact List.take_append_drop _ _
  have hlen := congrArg List.length r1
  simp only [List.length_append] at hlen
  refine ⟨by simp [NS.choose, NS.putBody, r1], ?_⟩
  have := (parts_concat_nonseekable (s.data.length + 1) (NS.choose s threshold).2 chunk hc
    (by simp only [NS.choose]; omega)).1
  rw [this]
  simp [NS.choose, r1]

/-- **A stream sent as one PutObject is shorter than the threshold** (the D16 repair): whatever the
short-read pattern, the single-request path is taken only when the whole stream has fewer than
`multipart_threshold` bytes — so its in-memory body is bounded by the threshold (C11). -/
theorem single_put_below_threshold (s : Src α) (threshold : Nat) (h : (NS.choose s threshold).1 = false) :
    s.data.length < threshold ∧ (NS.choose s threshold).2.putBody.length < threshold := by
  obtain ⟨f1, f2⟩ := Src.readFully_spec threshold s threshold (Nat.le_refl _)
  simp only [NS.choose, f1, List.length_take] at h
  have hl : s.data.length < threshold := by
    by_cases hle : threshold ≤ min threshold s.data.length
    · have := Nat.ble_eq_true_of_le hle; rw [h] at this; cases this
    · omega
  refine ⟨hl, ?_⟩
  simp only [NS.choose, NS.putBody, f1, f2, List.take_append_drop]
  exact hl

/-- and the parts of a multipart stream upload are full-sized except the last: every part body has
exactly `chunk` bytes unless it is the final one -/
theorem nonseekable_part_full (m : NS α) (chunk : Nat) (hc : 0 < chunk)
    (hrest : chunk ≤ m.initial.length + m.src.data.length) : (m.readChunk chunk).1.length = chunk := by
  unfold NS.readChunk
  by_cases h0 : m.initial.length = 0
  · rw [if_pos h0]
    obtain ⟨f1, _⟩ := Src.readFully_spec chunk m.src chunk (Nat.le_refl _)
    simp only [f1, List.length_take]; omega
  · rw [if_neg h0]
    by_cases h1 : chunk ≤ m.initial.length
    · rw [if_pos h1]; simp only [List.length_take]; omega
    · rw [if_neg h1]
      obtain ⟨f1, _⟩ := Src.readFully_spec (chunk - m.initial.length) m.src (chunk - m.initial.length) (Nat.le_refl _)
      simp only [f1, List.length_append, List.length_take]; omega

/-- **Re-sending a body**: after any history of reads/seeks on a request body, a rewind followed
by reading it out returns exactly the body's window again (from C09's model of ReadFileChunk). -/
theorem body_reread (c : S3V.Chunk.Rfc α) :
    (S3V.Chunk.step (S3V.Chunk.step c (.seek 0 0)).1 (.read none)).2.data = c.window :=
  S3V.C09.reread_after_rewind c

/-- **Copies**: the `CopySourceRange`s of the parts are consecutive from byte 0 to the last byte
(C14 `ranges_tile` with the total size), so the service-side concatenation is the source object. -/
theorem copy_ranges_concat (size c : Nat) (hc : 0 < c) (hs : 0 < size) :
    let n := S3V.Plan.ceilDiv size c
    (∀ i, i < n → (S3V.Plan.rangeParam c i n (some size)).start = i * c) ∧
    (∀ i, i + 1 < n → (S3V.Plan.rangeParam c i n (some size)).stop
        = some (((S3V.Plan.rangeParam c (i+1) n (some size)).start : Int) - 1)) ∧
    (S3V.Plan.rangeParam c (n - 1) n (some size)).stop = some ((size : Int) - 1) := by
  intro n
  have := S3V.C14.ranges_tile size c hc hs (some size)
  exact ⟨this.1, this.2.1, by simpa using this.2.2.1⟩

/-! ### non-vacuity -/
example : slices [1,2,3,4,5,6,7] 3 (S3V.Plan.ceilDiv 7 3) = [[1,2,3],[4,5,6],[7]] := by decide
example : NS.parts 9 (NS.choose ({ data := [1,2,3,4,5,6,7,8], script := [3, 1, 2] } : Src Nat) 3).2 4
    = [[1,2,3,4], [5,6,7,8]] := by decide
example : (NS.choose ({ data := [1,2,3,4,5], script := [2, 1, 1] } : Src Nat) 4).1 = true := by decide

end S3V.C01
