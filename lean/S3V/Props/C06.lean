/-
C06 — file downloads are published atomically and leave no temporary files.
Theorems over every run, hence over every *prefix* of every run (each prefix is a crash point),
of the file-system model of a download to a path: any interleaving of queued/executed/skipped
writes, failures at any point (requests, stream, writes, rename), cancellation at any point.
The explorer checks the same on the real code against a real temporary directory, inspected at
every scheduling point, for the manager and (sequentially) the legacy front end.
-/
import S3V.Model.Fs

namespace S3V.C06
open S3V.Fs

structure Inv (s : Fs) : Prop where
  fin  : s.final = .absentOrPrevious ∨ (s.final = .complete ∧ s.renamed = true)
  miss : s.missing = true → s.failed = true
  ren  : s.renamed = true → s.temp = .absent ∧ s.failed = false ∧ s.final = .complete
  cln  : s.cleaned = true → s.temp = .absent ∧ s.renamed = false ∧ s.failed = true
  wac  : s.writesAfterClose = 0
  clo  : s.temp = .closed → s.failed = true

theorem init_inv : Inv ({} : Fs) := by constructor <;> simp

theorem step_inv (s s' : Fs) (l : Label) (h : Inv s) (hs : step s l = some s') : Inv s' := by
  obtain ⟨h1, h2, h3, h4, h5, h6⟩ := h
  cases l <;> simp only [step] at hs <;>
    (repeat' (split at hs)) <;> (first | cases hs | skip) <;>
    (first
      | exact ⟨h1, h2, h3, h4, h5, h6⟩
      | (constructor <;> simp_all))

theorem run_inv (s s' : Fs) (ls : List Label) (h : Inv s) (hr : run s ls = some s') : Inv s' := by
  induction ls generalizing s with
  | nil => simp only [run, Option.some.injEq] at hr; exact hr ▸ h
  | cons l ls ih =>
    simp only [run] at hr
    cases hs : step s l with
    | none => simp [hs] at hr
    | some s1 => simp only [hs] at hr; exact ih s1 (step_inv s s1 l h hs) hr

/-- **Atomic publication.** After every prefix of every run the destination name holds its
previous content (or does not exist) or the complete object — never partial content. -/
theorem final_atomic (ls : List Label) (s : Fs) (hr : run {} ls = some s) :
    s.final = .absentOrPrevious ∨ s.final = .complete := by
  have := (run_inv {} s ls init_inv hr).fin
  rcases this with h | h
  · exact Or.inl h
  · exact Or.inr h.1

/-- **A failure keeps the previous content**: once the transfer has failed or was cancelled
(before the rename), the destination is never touched. -/
theorem failure_keeps_previous (ls : List Label) (s : Fs) (hr : run {} ls = some s)
    (hf : s.failed = true) : s.final = .absentOrPrevious := by
  have inv := run_inv {} s ls init_inv hr
  rcases inv.fin with h | h
  · exact h
  · have := (inv.ren h.2).2.1; rw [hf] at this; cases this

/-- **No temporary file once the transfer is finished**: after the rename (success) or after the
cleanups (failure / cancellation) no temporary file exists. -/
theorem no_temp_at_done (ls : List Label) (s : Fs) (hr : run {} ls = some s)
    (hd : s.renamed = true ∨ s.cleaned = true) : s.temp = .absent := by
  have inv := run_inv {} s ls init_inv hr
  rcases hd with h | h
  · exact (inv.ren h).1
  · exact (inv.cln h).1

/-- A cancellation yields the previous content, or — only if it raced the final rename, i.e. the
rename had already happened — the complete object. -/
theorem cancel_keeps_previous_or_complete (ls : List Label) (s s' : Fs) (hr : run {} ls = some s)
    (hs : step s .fail = some s') :
    (s.renamed = false → s'.final = .absentOrPrevious) ∧ (s.renamed = true → s'.final = .complete) := by
  have inv := run_inv {} s ls init_inv hr
  simp only [step] at hs
  split at hs
  · rename_i hrn
    cases hs
    exact ⟨(fun hn => by rw [hn] at hrn; cases hrn), (fun h => (inv.ren h).2.2)⟩
  · rename_i hrn
    cases hs
    refine ⟨?_, fun h => absurd h hrn⟩
    intro hn
    rcases inv.fin with h | h
    · exact h
    · rw [hn] at h; cases h.2

/-- **No write after the cleanup**, and no write ever reaches a closed temp file. -/
theorem no_write_after_cleanup (ls : List Label) (s : Fs) (hr : run {} ls = some s) :
    s.writesAfterClose = 0 ∧ (s.cleaned = true → ∀ ok, step s (.write ok) = none) := by
  have inv := run_inv {} s ls init_inv hr
  refine ⟨inv.wac, ?_⟩
  intro hc ok
  simp [step, hc]

/-- The object is published only when nothing is missing: every queued write was executed
successfully (then C02 `file_exact` says the temp file is the object). -/
theorem published_only_if_all_written (s s' : Fs) (h : step s (.rename true) = some s') (hi : Inv s) :
    s.missing = false ∧ s.pending = 0 ∧ s.allSubmitted = true := by
  simp only [step] at h
  split at h
  · rename_i hg
    refine ⟨?_, hg.2.1, hg.1⟩
    by_cases hm : s.missing = true
    · have := hi.miss hm; simp_all
    · simpa using hm
  · cases h

/-! ### non-vacuity -/
example : (run {} [.queueWrite, .openTemp, .write true, .queueWrite, .write true, .getsDone, .rename true]).map
    (fun s => (s.final, s.temp)) = some (.complete, .absent) := by decide
example : (run {} [.queueWrite, .openTemp, .write true, .queueWrite, .fail, .skipWrite, .getsDone, .skipRename, .cleanup]).map
    (fun s => (s.final, s.temp)) = some (.absentOrPrevious, .absent) := by decide

end S3V.C06
