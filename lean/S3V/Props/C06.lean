/-
C06 — downloads to a path are published atomically and leave no temporary files.
Quantifiers: every number of write tasks, every interleaving of the GET tasks (queueing writes),
the io thread (testing done(), opening the temporary file, writing), failures and cancellations
landing anywhere — also between a write task's done() test and its write — a failing write, a
failing rename, and the cleanups.  The model is `Fs2`; the real manager's traces are replayed on it.
-/
import S3V.Model.Fs2
import S3V.Props.Serial

namespace S3V.C06
open S3V.Fs2

structure Inv (s : Fs) : Prop where
  i1 : s.missing = true → s.failed = true
  i2 : s.cleaned = true → s.failed = true ∧ s.temp = .absent ∧ s.running = false ∧ s.finalRunning = false ∧ s.renamed = false
  i3 : s.running = true → s.cleaned = false ∧ s.renamed = false ∧ s.finalPicked = false
  i4 : s.renamed = true → s.temp = .absent ∧ s.running = false ∧ s.finalRunning = false ∧ s.final = .complete ∧
        s.missing = false ∧ s.cleaned = false ∧ s.finalPicked = true
  i5 : s.finalRunning = true → s.finalPicked = true ∧ s.missing = false ∧ s.running = false ∧ s.queued = 0 ∧
        s.cleaned = false ∧ s.renamed = false
  i7 : s.lateWrites = 0
  i8 : s.renamed = false → s.final = .absentOrPrevious
  i9 : s.finalPicked = true → s.running = false ∧ s.queued = 0 ∧ s.allSubmitted = true

theorem init_inv : Inv ({} : Fs) := by constructor <;> simp

theorem step_inv (s s' : Fs) (l : Label) (h : Inv s) (hs : step s l = some s') : Inv s' := by
  obtain ⟨i1, i2, i3, i4, i5, i7, i8, i9⟩ := h
  cases l <;> simp only [step] at hs <;> (repeat' (split at hs)) <;> (first | cases hs | skip) <;>
    (constructor <;> first | (simp_all; done) | (cases hm : s.missing <;> cases hc : s.cleaned <;> simp_all))

theorem run_inv (s s' : Fs) (ls : List Label) (h : Inv s) (hr : run s ls = some s') : Inv s' := by
  induction ls generalizing s with
  | nil => simp only [run, Option.some.injEq] at hr; exact hr ▸ h
  | cons l ls ih =>
    simp only [run] at hr
    cases hs : step s l with
    | none => simp [hs] at hr
    | some s1 => simp only [hs] at hr; exact ih s1 (step_inv s s1 l h hs) hr

/-- **Atomic publication.** After every prefix of every run the destination name holds its
previous content (or does not exist) or the complete object — never partial content. -/
theorem final_atomic (ls : List Label) (s : Fs) (hr : run {} ls = some s) :
    s.final = .absentOrPrevious ∨ s.final = .complete := by
  have inv := run_inv {} s ls init_inv hr
  cases h : s.renamed
  · exact Or.inl (inv.i8 h)
  · exact Or.inr (inv.i4 h).2.2.2.1

/-- **A failure keeps the previous content**: as long as the rename has not happened the
destination is untouched, whatever failed or was cancelled. -/
theorem failure_keeps_previous (ls : List Label) (s : Fs) (hr : run {} ls = some s)
    (hn : s.renamed = false) : s.final = .absentOrPrevious :=
  (run_inv {} s ls init_inv hr).i8 hn

/-- … and a transfer that had failed when the final task tested `done()` is never renamed. -/
theorem failed_before_final_never_published (s s' : Fs) (ls : List Label)
    (h : s.finalPicked = true ∧ s.finalRunning = false ∧ s.renamed = false) (hr : run s ls = some s') :
    s'.renamed = false ∧ s'.final = s.final := by
  induction ls generalizing s with
  | nil => simp only [run, Option.some.injEq] at hr; subst hr; exact ⟨h.2.2, rfl⟩
  | cons l ls ih =>
    simp only [run] at hr
    cases hs : step s l with
    | none => simp [hs] at hr
    | some s1 =>
      simp only [hs] at hr
      have key : (s1.finalPicked = true ∧ s1.finalRunning = false ∧ s1.renamed = false) ∧ s1.final = s.final := by
        obtain ⟨h1, h2, h3⟩ := h
        cases l <;> simp only [step] at hs <;> (repeat' (split at hs)) <;> (first | cases hs | skip) <;> simp_all
      have := ih s1 key.1 hr
      exact ⟨this.1, by rw [this.2, key.2]⟩

/-- **No temporary file once the transfer is finished**: after the rename (success) or after the
cleanups (failure / cancellation) no temporary file exists — in that state and, for the cleanups,
in every later one (`cleaned_stable`). -/
theorem no_temp_at_done (ls : List Label) (s : Fs) (hr : run {} ls = some s)
    (hd : s.renamed = true ∨ s.cleaned = true) : s.temp = .absent := by
  have inv := run_inv {} s ls init_inv hr
  rcases hd with h | h
  · exact (inv.i4 h).1
  · exact (inv.i2 h).2.1

theorem cleaned_stable (s s' : Fs) (l : Label) (hi : Inv s) (hc : s.cleaned = true) (hs : step s l = some s') :
    s'.cleaned = true ∧ s'.temp = .absent := by
  have h2 := hi.i2 hc
  have hi' := step_inv s s' l hi hs
  have hc' : s'.cleaned = true := by
    cases l <;> simp only [step] at hs <;> (repeat' (split at hs)) <;> (first | cases hs | skip) <;> simp_all
  exact ⟨hc', (hi'.i2 hc').2.1⟩

/-- A cancellation yields the previous content, or — only if it raced the final rename — the
complete object. -/
theorem cancel_keeps_previous_or_complete (ls : List Label) (s s' : Fs) (hr : run {} ls = some s)
    (hs : step s .fail = some s') :
    (s.renamed = false → s'.final = .absentOrPrevious) ∧ (s.renamed = true → s'.final = .complete) := by
  have inv := run_inv {} s ls init_inv hr
  simp only [step] at hs
  split at hs
  · rename_i hrn
    cases hs
    exact ⟨(fun hn => by rw [hn] at hrn; cases hrn), (fun h => (inv.i4 h).2.2.2.1)⟩
  · rename_i hrn
    cases hs
    exact ⟨fun hn => inv.i8 hn, fun h => absurd h hrn⟩

/-- **No write after the cleanup or the rename**: no write task ever ends after the cleanups ran or
after the file was published, and once the cleanups ran no write task passes its `done()` test. -/
theorem no_write_after_cleanup (ls : List Label) (s : Fs) (hr : run {} ls = some s) :
    s.lateWrites = 0 ∧ (s.cleaned = true → step s (.pickWrite false) = none ∧ ∀ ok, step s (.writeEnd ok) = none) := by
  have inv := run_inv {} s ls init_inv hr
  refine ⟨inv.i7, ?_⟩
  intro hc
  have h2 := inv.i2 hc
  refine ⟨?_, ?_⟩
  · simp [step, h2.1]
  · intro ok; simp [step, h2.2.2.1]

/-- The object is published only when nothing is missing: every queued write was executed
successfully (then C02 `file_exact` says the temp file is the object), every GET task had ended and
no write was pending or running. -/
theorem published_only_if_all_written (ls : List Label) (s : Fs) (hr : run {} ls = some s) (h : s.renamed = true) :
    s.missing = false ∧ s.queued = 0 ∧ s.running = false ∧ s.allSubmitted = true := by
  have inv := run_inv {} s ls init_inv hr
  have h4 := inv.i4 h
  have h9 := inv.i9 h4.2.2.2.2.2.2
  exact ⟨h4.2.2.2.2.1, h9.2.1, h9.1, h9.2.2⟩

/-- the cleanups wait for the io thread: they are not enabled while a write task is running or queued -/
theorem cleanup_waits_for_writes (s : Fs) (h : s.running = true ∨ 0 < s.queued) : step s .cleanup = none := by
  rcases h with h | h
  · simp [step, h]
  · simp [step]; intro _ hq; omega

/-! ### non-vacuity -/
example : (run {} [.queueWrite, .pickWrite false, .openTemp, .writeEnd true, .queueWrite, .pickWrite false, .writeEnd true,
      .getsDone, .pickFinal false, .rename true]).map (fun s => (s.final, s.temp)) = some (.complete, .absent) := by decide
example : (run {} [.queueWrite, .pickWrite false, .openTemp, .fail, .writeEnd true, .queueWrite, .pickWrite true, .getsDone,
      .pickFinal true, .cleanup]).map (fun s => (s.final, s.temp, s.lateWrites)) = some (.absentOrPrevious, .absent, 0) := by decide

/-- **The rename of a single-request download on a serial manager runs only after a complete GET**:
for every outcome of the GET task and of the rename (success, an ordinary exception, Ctrl-C), the rename's
main is among the mains that ran exactly when the GET's main returned normally (D18: before the repair
a Ctrl-C inside the GET was followed by the rename of the partial file) -/
theorem serial_rename_only_after_complete_get (get ren : S3V.Serial.Out) :
    (1 ∈ (S3V.Serial.manager S3V.Serial.Tables.current
        [{ id := 0, isFinal := false, out := get, after := some { id := 1, isFinal := true, out := ren } }]).1.ran)
      ↔ get = .ok := by
  cases get with
  | ok => cases ren with
    | ok => decide
    | raise e => cases e <;> decide
  | raise e => cases e <;> (cases ren with
    | ok => decide
    | raise e' => cases e' <;> decide)

end S3V.C06
