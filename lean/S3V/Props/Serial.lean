/-
The serial manager (`executor_cls=NonThreadedExecutor`): theorems over every plan a manager builds and
every outcome of every main — success, an ordinary exception, a KeyboardInterrupt.  The `except`
clauses of the four layers are generated from the source (`S3V.Gen.Handlers`); `current_sound` is the
obligation that ties the theorems to them.  Used by C03 (no false success, first failure reported),
C04 (done is announced), C05/C06 (nothing after the first failure: no complete, no rename), C12
(permits given back).
-/
import S3V.Lemmas.Serial

namespace S3V.Serial

/-- **Outcome of a transfer on a serial manager.** For the tables generated from the source
(`current_sound`), every well-formed plan and every outcome of every main — success, an ordinary
exception, a KeyboardInterrupt:
* the call (`upload()`, `download()`, …) returns normally;
* every permit taken has been given back;
* done has been announced (the future is done, `result()` does not block);
* `result()` raises exactly the first failure, in execution order — and returns normally only if no
  main raised (so a destination renamed by the final task holds a complete object);
* the failure cleanups ran unless the transfer succeeded. -/
theorem serial_outcome (plan : List Task) (hwf : WF plan) :
    (manager Tables.current plan).2 = none ∧ (manager Tables.current plan).1.permits = 0 ∧
    1 ≤ (manager Tables.current plan).1.announced ∧
    (manager Tables.current plan).1.exc = firstFailure (allOuts plan) ∧
    (manager Tables.current plan).1.success = (firstFailure (allOuts plan)).isNone ∧
    (manager Tables.current plan).1.cleaned = !(manager Tables.current plan).1.success := by
  rw [manager_eq _ current_sound]
  exact spec_outcome plan hwf

/-- no main runs after the first failure: what ran is a prefix of the plan's ids (stated for the tasks
before the last one) -/
theorem serial_no_false_success (plan : List Task) (hwf : WF plan)
    (h : (manager Tables.current plan).1.success = true) : ∀ o ∈ allOuts plan, o = .ok := by
  have := (serial_outcome plan hwf).2.2.2.2.1
  rw [h] at this
  have hn : firstFailure (allOuts plan) = none := by
    cases hf : firstFailure (allOuts plan) with
    | none => rfl
    | some e => rw [hf] at this; simp at this
  generalize allOuts plan = l at hn
  induction l with
  | nil => intro o ho; cases ho
  | cons x rest ih =>
    cases x with
    | ok =>
      intro o ho
      rcases List.mem_cons.mp ho with rfl | ho
      · rfl
      · exact ih (by simpa [firstFailure] using hn) o ho
    | raise e => simp [firstFailure] at hn

/-- non-vacuity, and the witness of D18 on the tables of the tree before the repair: a single-request
download (GET task whose done callback is the final rename task) hit by Ctrl-C inside the GET -/
def getThenRename (o : Out) : List Task := [{ id := 0, isFinal := false, out := o, after := some { id := 1, isFinal := true, out := .ok } }]

example : WF (getThenRename (.raise .base)) :=
  ⟨⟨[], _, rfl, by simp, Or.inr ⟨rfl, _, rfl, rfl⟩⟩⟩

example : (manager Tables.current (getThenRename (.raise .base))).1.exc = some .base ∧
    (manager Tables.current (getThenRename (.raise .base))).1.ran = [0] := by decide

/-- the tables before commits 1184191 / 2d8d57d: `Task.__call__` caught `Exception` only and
`BoundedExecutor.submit` had no `try` -/
def Tables.beforeRepair : Tables :=
  { Tables.current with task := [("Exception", true, false, false)], bounded := [] }

/-- D18 and D19 in the model: the rename ran (`ran = [0, 1]`), success was reported, and a permit
was never given back -/
example : (manager Tables.beforeRepair (getThenRename (.raise .base))).1.success = true ∧
    (manager Tables.beforeRepair (getThenRename (.raise .base))).1.ran = [0, 1] ∧
    (manager Tables.beforeRepair (getThenRename (.raise .base))).1.permits = 1 := by decide

/-- **Nothing runs after the first failure.** On a serial manager the mains that run are exactly the
plan's mains up to and including the first one that raises (an ordinary exception or a
KeyboardInterrupt): no later request, no CompleteMultipartUpload, no rename. -/
theorem serial_ran (plan : List Task) (hwf : WF plan) :
    (manager Tables.current plan).1.ran = ranOf (mainsOf plan) := by
  rw [manager_eq _ current_sound]
  obtain ⟨pre, last, rfl, hpre, hl⟩ := hwf.shape
  have h0 : Mid ({} : St) none := ⟨rfl, rfl, rfl, rfl, rfl⟩
  have hr := pre_ran pre hpre {} none h0
  simp only [tailRan] at hr
  have hmm : mainsOf (pre ++ [last]) = mainsOf pre ++ mainsOfTask last := by
    rw [mainsOf_append]; simp [mainsOf]
  rw [hmm, ranOf_append]
  rcases pre_loop pre hpre {} none h0 with ⟨hp, hm⟩ | ⟨hp, _, hf, hm⟩
  · rw [orElse'_none] at hm
    have hs : specSubmission (pre ++ [last]) {} = specSubmission [last] (specAll pre {}).1 := by
      unfold specSubmission
      rw [specAll_append, hp]
    rw [hs, last_ran last _ _ hm hl, hr]
    cases hff : firstFailure (allOuts pre) with
    | none =>
      have := (firstFailure_none_iff pre).mp hff
      simp [this, tailRan]
    | some e =>
      have : allOk (mainsOf pre) = false := by
        cases hk : allOk (mainsOf pre) with
        | false => rfl
        | true => rw [(firstFailure_none_iff pre).mpr hk] at hff; cases hff
      simp [this, tailRan]
  · have hs : specSubmission (pre ++ [last]) {} = (((specAll pre {}).1.setExc .base).announce, none) := by
      unfold specSubmission
      rw [specAll_append, hp]
    have hd : (specAll pre {}).1.done = true := by rw [mid_done _ _ hm]; rfl
    have : allOk (mainsOf pre) = false := by
      cases hk : allOk (mainsOf pre) with
      | false => rfl
      | true => rw [(firstFailure_none_iff pre).mpr hk] at hf; cases hf
    rw [hs]
    simp [St.setExc, hd, St.announce, hr, this]



/-! ### the failure path of a submission task (D20) -/

theorem waitLoop_current (stored : List (Option Exc)) : waitLoop Gen.waitLoopHandlers stored = none := by
  induction stored with
  | nil => rfl
  | cons x rest ih =>
    cases x with
    | none => simpa [waitLoop] using ih
    | some e => cases e <;> simpa [waitLoop, findHandler, catches, Gen.waitLoopHandlers] using ih

/-- **A failed submission is always announced**: whatever exceptions — ordinary or not — the futures of the
tasks submitted so far carry, the failure path of `SubmissionTask._main` (generated from the source: record,
wait, announce) reaches `announce_done` and raises nothing.  (Before commit fc016c7 the waiting loop let a
`base` exception through and the transfer was never announced: D20.) -/
theorem failed_submission_is_announced (stored : List (Option Exc)) :
    failurePath Gen.waitLoopHandlers Gen.submissionFailurePath stored = (true, none) := by
  simp [Gen.submissionFailurePath, failurePath, waitLoop_current]

/-- the loop before the repair (`except Exception`): a `base` exception on an awaited future ends the path
without an announcement -/
example : failurePath [("Exception", false, false, false)] Gen.submissionFailurePath [none, some .base] = (false, some .base) := by
  decide

end S3V.Serial
