/-
C05 — no orphaned or doubly-finished multipart uploads.
Theorems over *every run* of the transfer model (S3V.Model.Xfer): every interleaving of the
submission thread, request threads, the cancelling user and concurrent announcers, every
placement of request failures (a `reqEnd j false` may come after the service applied the call —
the model does not care), any number of parts.
The plan facts the model relies on (the complete task is the only final task and waits for the
create task and all part tasks) are re-read from the source on every run (`plans_ok`).
-/
import S3V.Lemmas.Xfer3
import S3V.Model.Wiring
import S3V.Props.Serial
import S3V.Model.Coord

namespace S3V.C05
open S3V.Xfer
open S3V.Coord (Status)

/-- the task plans the model assumes, checked against the current source -/
theorem plans_ok : S3V.Gen.plansOK = true := by decide +kernel

/-- **The abort is issued only after every other request for the upload has returned**: in every
reachable state in which an abort begins, no task has a request in flight. -/
theorem abort_after_returns (cfg : Cfg) (ls : List Label) (x x' : X) (who : Nat)
    (hr : run cfg {} ls = some x) (hs : step cfg x (.abortBegin who) = some x') :
    ∀ j, x.ph j ≠ .req := by
  have inv := reachable_inv cfg ls x hr
  simp only [step] at hs
  split at hs
  · rename_i hg
    exact (announcer_blocks cfg x inv.g2 who hg.1).1
  · cases hs

/-- **No part or complete request is issued after the abort.** Once an abort has begun, no
request of the transfer can begin any more (in any continuation). -/
theorem nothing_after_abort (cfg : Cfg) (ls : List Label) (x : X)
    (hr : run cfg {} ls = some x) (hb : x.abortBegun = true) (j : Nat) :
    step cfg x (.reqBegin j) = none := by
  have inv := reachable_inv cfg ls x hr
  obtain ⟨who, hw⟩ := inv.g3.ba hb
  have hblk := (announcer_blocks cfg x inv.g2 who hw).2 j
  simp only [step]
  split
  · rename_i hg
    have := hblk hg.1
    simp_all
  · rfl

/-- **Never aborted twice**, and the abort is issued only when the create request returned an
upload id to the library. -/
theorem abort_at_most_once (cfg : Cfg) (ls : List Label) (x : X) (hr : run cfg {} ls = some x) :
    x.abortCount ≤ 1 ∧ (x.abortCount = 1 → x.abortRegistered = true) := by
  have inv := reachable_inv cfg ls x hr
  exact ⟨inv.g1.ab1, inv.g1.ab5⟩

/-- **An aborted upload is never reported as a success**, now or later. -/
theorem aborted_not_success (cfg : Cfg) (ls : List Label) (x : X) (hr : run cfg {} ls = some x)
    (hb : x.abortBegun = true) : x.status ≠ .success :=
  (reachable_inv cfg ls x hr).g4.ns hb

/-- **Never left open.** When an announcer has left the cleanup phase (so in particular when the
done callbacks run and `result()` is unblocked) and the transfer did not succeed, the abort for
a registered upload id has been issued and has returned. -/
theorem failed_implies_aborted (cfg : Cfg) (ls : List Label) (x : X) (who : Nat)
    (hr : run cfg {} ls = some x) (hw : x.announced who = true)
    (h1 : x.pc who ≠ .cleanupLock) (h2 : x.pc who ≠ .aborting)
    (hf : x.status ≠ .success) (hreg : x.abortRegistered = true) :
    x.abortCount = 1 ∧ x.abortOpen = false := by
  have inv := reachable_inv cfg ls x hr
  have hp : x.cleanupsPending = false := by
    rcases inv.g4.cl who hw h1 h2 with h | h
    · exact absurd h hf
    · exact h
  have hopen : x.abortOpen = false := by
    by_cases ho : x.abortOpen = true
    · have := (inv.g1.ab3 ho).1; rw [hp] at this; cases this
    · simpa using ho
  refine ⟨?_, hopen⟩
  -- registered and no longer pending: it ran
  exact inv.g6.rd hreg hp

/-- **Never completed twice**: each task issues at most one request, and there is at most one
final (complete) task. -/
theorem one_request_per_task (cfg : Cfg) (x : X) (j : Nat) (h : x.requested j = true) :
    step cfg x (.reqBegin j) = none := by
  simp [step, h]

theorem one_final_task (cfg : Cfg) (ls : List Label) (x : X) (hr : run cfg {} ls = some x)
    (j d1 : Nat) (d : List Nat) (hk : x.known j = true) (hf : x.final j = true) :
    step cfg x (.submit d1 true d) = none := by
  have inv := reachable_inv cfg ls x hr
  have := inv.g2.fs j hk hf
  simp [step, this]

/-! ### non-vacuity: a failing part, then the abort, on a 2-part upload -/
example :
    (run { bound := 4 } {} [.subStart, .subDecide true, .toQueued, .onQueued, .toRunning,
      .submit 0 false [], .submit 1 false [0], .submit 2 false [0], .submit 3 true [0, 1, 2], .subEnd,
      .taskStart 0, .decide 0 true, .reqBegin 0, .reqEnd 0 true, .registerAbort 0, .taskEnd 0,
      .taskStart 1, .taskStart 2, .taskStart 3, .decide 1 true, .decide 2 true,
      .reqBegin 1, .reqBegin 2, .reqEnd 1 false, .record 1, .taskEnd 1, .reqEnd 2 true, .taskEnd 2,
      .decide 3 false, .annBegin 5, .abortBegin 5, .abortEnd 5, .eventSet 5, .cbLock 5, .cbDone 5, .annEnd 5,
      .taskEnd 3]).map (fun x => (x.status, x.abortCount, x.doneCbRuns))
    = some (.failed, 1, 1) := by decide

/-- the early abort (seeded change C05: the final task stops waiting once the transfer is done) is
not a run of the model: the announcement is not enabled while part 2 is still in flight -/
example :
    run { bound := 4 } {} [.subStart, .subDecide true, .toQueued, .toRunning,
      .submit 0 false [], .submit 1 false [0], .submit 2 false [0], .submit 3 true [0, 1, 2],
      .taskStart 0, .decide 0 true, .reqBegin 0, .reqEnd 0 true, .registerAbort 0, .taskEnd 0,
      .taskStart 1, .taskStart 2, .taskStart 3, .decide 1 true, .decide 2 true,
      .reqBegin 1, .reqBegin 2, .reqEnd 1 false, .record 1, .taskEnd 1,
      .decide 3 false] = none := by decide

/-- **Nothing of the transfer runs after its first failure on a serial manager**: the mains that run
are the plan's mains up to and including the first one that raises — no part after a failed part, no
CompleteMultipartUpload after a failed part (the failure cleanups, the abort among them, ran:
`cleaned = !success`) -/
theorem serial_nothing_after_failure (plan : List S3V.Serial.Task) (hwf : S3V.Serial.WF plan) :
    (S3V.Serial.manager S3V.Serial.Tables.current plan).1.ran = S3V.Serial.ranOf (S3V.Serial.mainsOf plan) ∧
    (S3V.Serial.manager S3V.Serial.Tables.current plan).1.cleaned = !(S3V.Serial.manager S3V.Serial.Tables.current plan).1.success :=
  ⟨S3V.Serial.serial_ran plan hwf, (S3V.Serial.serial_outcome plan hwf).2.2.2.2.2⟩

/-- **The failure cleanups (the abort of a multipart upload among them) run inside `announce_done` only**, and
there only when the transfer did not succeed: no other operation of the coordinator — `set_exception` with or
without override, `TransferFuture.set_exception` on a finished transfer, `set_result`, a cancel of a started
transfer — runs a cleanup.  (A completed upload is therefore never aborted because the caller flags its future as
failed afterwards.) -/
theorem cleanups_only_by_announce (c : S3V.Coord.Coord) (o : S3V.Coord.Op)
    (h1 : o ≠ .announceDone) (h2 : ∀ e, o = .cancel e → c.status ≠ .notStarted) :
    (S3V.Coord.step c o).1.ranCleanups = c.ranCleanups := by
  cases o with
  | announceDone => exact absurd rfl h1
  | cancel e =>
    have hs := h2 e rfl
    simp only [S3V.Coord.step]
    split
    · rfl
    · simp [hs]
  | setException e ov => simp only [S3V.Coord.step]; split <;> rfl
  | futureSetException e => simp only [S3V.Coord.step]; split <;> rfl
  | _ => simp [S3V.Coord.step] <;> (try split) <;> rfl

/-- a successful transfer's announcement runs no failure cleanup -/
theorem announce_success_keeps_cleanups (c : S3V.Coord.Coord) (h : c.status = .success) :
    (S3V.Coord.announce c).ranCleanups = c.ranCleanups := by
  simp [S3V.Coord.announce, h]

end S3V.C05
