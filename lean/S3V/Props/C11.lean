/-
C11 — in-memory buffering stays within the documented bounds.
The bounds are consequences of permit accounting: the stage model (C10) for the upload-chunk
semaphore and the io queue, the sliding-window semaphore (C12) for non-seekable downloads.
Which semaphore governs which tasks is a wiring fact regenerated from the source (C10.wiring_ok);
that stream-upload part tasks and non-seekable GET tasks really carry the tags, and the size of
each buffer, are judged end to end by the explorer (buffers are observed through OSUtils).
-/
import S3V.Props.C10
import S3V.Props.C12
import S3V.Lemmas.Download
import S3V.Props.C01

namespace S3V.C11
open S3V.Exec

/-- **Upload buffers.** Tagged part tasks queued or running never exceed the
`max_in_memory_upload_chunks` permits; each of the `max_submission_concurrency` submission
threads holds at most one more buffer (the part it has read and is waiting to submit). -/
theorem upload_buffers_le (chunks subThreads : Nat) (workers : Nat) (ls : List Label) (e : Exec)
    (hr : run (Exec.init chunks workers) ls = some e) (waiting : Nat) (hw : waiting ≤ subThreads) :
    e.queue.length + e.running.length + waiting ≤ chunks + subThreads := by
  have h := (S3V.C10.queued_le chunks workers ls e hr).1
  have hc : e.cap = chunks := by
    have : ∀ (e0 e1 : Exec) (ls : List Label), run e0 ls = some e1 → e1.cap = e0.cap := by
      intro e0 e1 ls
      induction ls generalizing e0 with
      | nil => intro h; simp only [run, Option.some.injEq] at h; subst h; rfl
      | cons l ls ih =>
        intro h
        simp only [run] at h
        cases hs : step e0 l with
        | none => simp [hs] at h
        | some e2 =>
          simp only [hs] at h
          rw [ih e2 h]
          cases l with
          | submit j d => simp only [step] at hs; split at hs <;> cases hs; rfl
          | pick j =>
            simp only [step] at hs
            cases hq : e0.queue with
            | nil => simp [hq] at hs
            | cons q rest => simp only [hq] at hs; split at hs <;> cases hs; rfl
          | finish j => simp only [step] at hs; split at hs <;> cases hs; rfl
    exact this _ e ls hr
  omega

/-- **Download window.** For every tag (transfer) of the sliding-window semaphore, in every
history: the newest token issued minus the lowest unreleased one is below the configured
`max_in_memory_download_chunks` — parts are requested at most that many ahead of the lowest part
not yet finished, and summed over transfers the windows fit into the capacity. -/
theorem window_le (cap : Nat) (ops : List S3V.Sema.Op) (t : Nat) (ts : S3V.Sema.TagSt)
    (h : S3V.Sema.lookup (S3V.Sema.run (S3V.Sema.Sws.init cap) ops).tags t = some ts) :
    ts.next - ts.lowest ≤ cap := by
  have hc := S3V.C12.capacity_eq cap ops
  have hw : ∀ (tags : List (Nat × S3V.Sema.TagSt)), S3V.Sema.lookup tags t = some ts →
      ts.next - ts.lowest ≤ S3V.Sema.width tags := by
    intro tags
    induction tags with
    | nil => intro h; simp [S3V.Sema.lookup] at h
    | cons hd tl ih =>
      obtain ⟨k, v⟩ := hd
      intro h
      unfold S3V.Sema.lookup at h
      by_cases hk : k = t
      · simp only [hk, if_true, Option.some.injEq] at h
        subst h
        simp only [S3V.Sema.width]; omega
      · simp only [hk, if_false] at h
        have := ih h
        simp only [S3V.Sema.width]; omega
  have := hw _ h
  omega

/-- **Pending destination writes** never exceed `max_io_queue_size` (stage model of the io
executor; each write task carries one chunk of at most `io_chunksize` bytes, C02
`attemptChunks_spec`). -/
theorem io_pending_le (ioq : Nat) (ls : List Label) (e : Exec) (hr : run (Exec.init ioq 1) ls = some e) :
    e.queue.length + e.running.length ≤ e.cap ∧ e.running.length ≤ 1 :=
  ⟨(S3V.C10.queued_le ioq 1 ls e hr).1, S3V.C10.inflight_le ioq 1 ls e hr⟩

theorem io_chunks_le (io len : Nat) (a : S3V.Download.Attempt) (hio : 0 < io) :
    ∀ c ∈ S3V.Download.attemptChunks io len a, c ≤ io :=
  fun c hc => ((S3V.Download.attemptChunks_spec io len a hio).2.2 c hc).2

/-- **Size of a stream-upload buffer sent as one PutObject** (after the D16 repair): whatever the
stream's short-read pattern, the single-request path is taken only when the whole stream is
shorter than `multipart_threshold`, so that buffer is smaller than the threshold; the buffers of a
multipart stream upload have exactly the (adjusted) part size except the last (D14 is about that
adjusted size being at least 5 MiB). -/
theorem stream_single_put_buffer_lt_threshold {α : Type} (s : S3V.Upload.Src α) (threshold : Nat)
    (h : (S3V.Upload.NS.choose s threshold).1 = false) :
    (S3V.Upload.NS.choose s threshold).2.putBody.length < threshold :=
  (S3V.C01.single_put_below_threshold s threshold h).2

theorem stream_part_buffer_le_chunk {α : Type} (m : S3V.Upload.NS α) (chunk : Nat) (hc : 0 < chunk)
    (hrest : chunk ≤ m.initial.length + m.src.data.length) : (m.readChunk chunk).1.length = chunk :=
  S3V.C01.nonseekable_part_full m chunk hc hrest

end S3V.C11
