/-
C03 — a future never reports success unless every step succeeded.
Over every run of the transfer model (uploads, copies, deletes: every interleaving, every
placement of request failures and cancellations), plus the retry loop of downloads (C02) and the
coordinator state machine (C17).  Downloads through the manager, callback faults and file-system
faults are judged end to end by the explorer (fault at every call position).
-/
import S3V.Lemmas.Xfer3
import S3V.Props.C02
import S3V.Props.C17
import S3V.Props.Serial

namespace S3V.C03
open S3V.Xfer
open S3V.Coord (Status)

/-- **No false success.** In every reachable state with status `success`, the final task ran
its main and its request succeeded, and no request of any other task of the transfer failed. -/
theorem no_false_success (cfg : Cfg) (ls : List Label) (x : X) (hr : run cfg {} ls = some x)
    (hs : x.status = .success) :
    ∀ k, x.known k = true → x.res k ≠ .failed := by
  have inv := reachable_inv cfg ls x hr
  obtain ⟨j, hf, hd, hres, hkj⟩ := inv.g5.r4 hs
  intro k hk
  by_cases e : k = j
  · subst e; rw [hres]; simp
  · exact (inv.g5.r3 j hf hd k hk e).1

/-- A failed request is recorded before its task ends, and a recorded failure makes the transfer
done at once — so later tasks skip their work and the final task cannot set a result. -/
theorem failure_is_recorded (cfg : Cfg) (ls : List Label) (x : X) (hr : run cfg {} ls = some x) (k : Nat)
    (hf : x.res k = .failed) (he : x.ph k = .ended) : x.recorded k = true ∧ x.done = true := by
  have inv := reachable_inv cfg ls x hr
  have := inv.g5.r2 k hf he
  exact ⟨this, inv.g5.r1 k this⟩

/-- **What is reported really happened**: status `failed` only if a task recorded a failed request
or the submission failed; status `cancelled` only if a cancel took effect. -/
theorem reported_is_real (cfg : Cfg) (ls : List Label) (x : X) (hr : run cfg {} ls = some x) :
    (x.status = .failed → (∃ k, x.recorded k = true) ∨ x.subFailed = true) ∧
    (x.status = .cancelled → x.cancelSeen = true) := by
  have inv := reachable_inv cfg ls x hr
  exact ⟨inv.g7.fr, inv.g7.cs⟩

/-- Once done, always done (whatever else fails or is cancelled later). -/
theorem done_forever (cfg : Cfg) (x x' : X) (ls : List Label) (h : x.done = true) (hr : run cfg x ls = some x') :
    x'.done = true := by
  induction ls generalizing x with
  | nil => simp only [run, Option.some.injEq] at hr; exact hr ▸ h
  | cons l ls ih =>
    simp only [run] at hr
    cases hs : step cfg x l with
    | none => simp [hs] at hr
    | some x1 => simp only [hs] at hr; exact ih x1 (done_step cfg x x1 l h hs) hr

/-- **Retry bounds** (downloads): at most `num_download_attempts` GETs per range, and a
non-retryable stream error ends the request at once — from the download loop model. -/
theorem retry_bounds (io start len : Nat) (hio : 0 < io) (n : Nat) (attempts : List S3V.Download.Attempt) :
    S3V.Download.requestsOf (S3V.Download.getObject io start len n attempts).1 ≤ n :=
  (S3V.C02.getObject_spec io start len hio n attempts).1

theorem nonretryable_not_retried (io start len n : Nat) (a : S3V.Download.Attempt)
    (rest : List S3V.Download.Attempt) (h : a.ending = .fatal) :
    (S3V.Download.getObject io start len (n + 1) (a :: rest)).2 = .fatal ∧
    S3V.Download.requestsOf (S3V.Download.getObject io start len (n + 1) (a :: rest)).1 = 1 :=
  S3V.C02.fatal_not_retried io start len n a rest h

/-! ### the serial manager (`executor_cls=NonThreadedExecutor`), Ctrl-C included

`S3V.Serial`: the `except` clauses of `Task.__call__`, `NonThreadedExecutor.submit`, `BoundedExecutor.submit`
and `SubmissionTask._main` are generated from the source; the theorems hold for every plan a manager
builds and every outcome of every main (success, an ordinary exception, a KeyboardInterrupt). -/

/-- **No false success on a serial manager**: `result()` returns normally only if no main raised —
no request, read, write, rename or callback, by an ordinary exception or by Ctrl-C (D18). -/
theorem serial_no_false_success (plan : List S3V.Serial.Task) (hwf : S3V.Serial.WF plan)
    (h : (S3V.Serial.manager S3V.Serial.Tables.current plan).1.success = true) :
    ∀ o ∈ S3V.Serial.allOuts plan, o = .ok :=
  S3V.Serial.serial_no_false_success plan hwf h

/-- **`result()` raises the first failure that occurred**, in execution order, and the call itself
(`upload()`, `download()`, …) returns normally -/
theorem serial_first_failure_reported (plan : List S3V.Serial.Task) (hwf : S3V.Serial.WF plan) :
    (S3V.Serial.manager S3V.Serial.Tables.current plan).1.exc = S3V.Serial.firstFailure (S3V.Serial.allOuts plan) ∧
    (S3V.Serial.manager S3V.Serial.Tables.current plan).1.success = (S3V.Serial.firstFailure (S3V.Serial.allOuts plan)).isNone ∧
    (S3V.Serial.manager S3V.Serial.Tables.current plan).2 = none :=
  ⟨(S3V.Serial.serial_outcome plan hwf).2.2.2.1, (S3V.Serial.serial_outcome plan hwf).2.2.2.2.1, (S3V.Serial.serial_outcome plan hwf).1⟩

/-- the tables of the source meet what the serial theorems need (the obligation that breaks when an
`except` clause of one of the four layers changes its behaviour) -/
theorem serial_tables_sound : S3V.Serial.Sound S3V.Serial.Tables.current := S3V.Serial.current_sound

end S3V.C03
