/-
C14 — part planning tiles the object and respects S3 limits.
The theorems over unbounded `Nat` are in `Props/C14Base.lean` (core Lean, imported by C01 / C09 / C11);
this file adds the theorems about the float computation the code performs.  Namespace `S3V.C14` in both.
-/
import S3V.Props.C14Base
import S3V.Lemmas.Float53

namespace S3V.C14
open S3V.Plan

/-! ### the float computation of the code: `int(math.ceil(size / float(part_size)))`

`Float53.fdiv a b` is the binary64 quotient (round to nearest, ties to even) as an exact rational,
compared bit for bit with CPython by the correspondence; `Float53.fceil` is `math.ceil` of it. -/

/-- What the code computes is the exact ceiling for every size below 2^53 (S3's largest object is
5 TiB < 2^43) and every positive part size. -/
theorem float_ceil_exact (a b : Nat) (hb : 0 < b) (ha : a < 2 ^ 53) :
    Float53.fceil a b = (ceilDiv a b : Int) := by
  by_cases h0 : a = 0
  · subst h0; rw [Float53.fceil_zero, ceilDiv_zero b hb]; rfl
  · have hpos : 0 < ceilDiv a b := ceilDiv_pos a b hb (by omega)
    have h1 := ceilDiv_spec a b hb
    have h2 := le_ceilDiv_mul a b hb
    obtain ⟨m, hm⟩ : ∃ m, ceilDiv a b = m + 1 := ⟨ceilDiv a b - 1, by omega⟩
    rw [hm] at h1 h2 ⊢
    have h1' : m * b < a := by
      rcases h1 with h | h
      · simpa using h
      · exact absurd h h0
    rw [Float53.fceil_eq a b m ha hb h1' h2]; push_cast; rfl

/-- The quotient itself is within relative error 2^-53 of the exact one (half a unit in the last place). -/
theorem float_quotient_error (a b : Nat) (ha : 0 < a) (hb : 0 < b) :
    (a : ℚ) / b - (a : ℚ) / b / 2 ^ 53 ≤ Float53.fdiv a b ∧
    Float53.fdiv a b ≤ (a : ℚ) / b + (a : ℚ) / b / 2 ^ 53 := Float53.fdiv_err a b ha hb

/-- Part counts computed by the code for sizes up to 5 TiB are the model's. -/
theorem float_ceil_exact_s3 (size c : Nat) (hc : 0 < c) (hs : size ≤ 5 * 2 ^ 40) :
    Float53.fceil size c = (ceilDiv size c : Int) :=
  float_ceil_exact size c hc (by omega)

/-- The bound is tight: at `2^53 + 1` bytes the float ceiling is one part short. -/
theorem float_ceil_inexact_beyond :
    Float53.fceil (2 ^ 53 + 1) 1 ≠ (ceilDiv (2 ^ 53 + 1) 1 : Int) := by decide +kernel

/-! ### non-vacuity -/
example : Float53.fdiv 1 10 = (3602879701896397 : Rat) / 36028797018963968 := by decide +kernel
example : Float53.fceil 11 5 = 3 := by decide +kernel

end S3V.C14
